"""C16 - grid geometry conversions are mutually inverse (DESIGN.md section C16).  Decides the dependence shape only:
 forward routines (indices -> coordinates): the vector handed to the rotation depends on the mesh size and NOT on the
   origin, the rotation is the direct one, and the origin is added to the rotated vector;
 inverse routines (coordinates -> indices / cell membership): the vector handed to the rotation depends on the origin and
   NOT on the mesh size, the rotation is the inverse one, and (for index computation) the mesh size divides its output;
 Rotation: rotateDirect reads the direct matrix, rotateInverse the inverse one, and every mutator that assigns one of the
   two matrices re-derives (or assigns) the other.
Integer rank arithmetic, half-cell and eps constants, derived grids and point-to-cell assignment are NOT decided."""
import os

import facts
from facts import REPO, Program, extract, show, call_obj, call_args, walk, CALL_KINDS
from e1_paths import CFG
from e2_deps import Deps, var_key
from report import Check

UNITS = ["src/Basic/Grid.cpp", "src/Basic/Rotation.cpp", "src/Db/DbGrid.cpp", "src/Core/db.cpp"]
# roles confirmed by reading the documentation of each routine
FORWARD = ["Grid::getCoordinate", "Grid::getCoordinatesByIndice", "Grid::getCoordinatesByRank", "Grid::indiceToCoordinate",
           "Grid::indicesToCoordinateInPlace"]
INVERSE = ["Grid::coordinateToIndicesInPlace", "Grid::sampleBelongsToCell"]
MESH, ORIGIN = "F:_dx", "F:_x0"


def rot_out_params(call):
    cal = call.get("callee") or ""
    if cal.endswith("::rotateDirect") or cal.endswith("::rotateInverse"):
        return [1]
    return None

def external_siblings(prog, chk):
    """C16x - conversion routines written OUTSIDE the Grid class (src/Core/db.cpp: db_grid_define_coordinates, point_to_grid,
    point_to_bench, point_inside_grid) obey the same dependence shape as Grid's own: what is handed to rotateDirect depends on
    the mesh (getDX) and not on the origin (getX0) - the origin is added afterwards; what is handed to rotateInverse depends on
    the origin and not on the mesh."""
    n = 0
    for f in sorted(prog.funcs, key=lambda x: (x.file, x.line)):
        if f.cfg is None or f.cls in ("Grid", "Rotation") or not f.file.endswith("src/Core/db.cpp"):
            continue
        rots = [c for c in f.calls() if (c.get("callee") or "").endswith(("Rotation::rotateDirect", "Rotation::rotateInverse"))]
        if not rots:
            continue
        dp = Deps(f, rot_out_params, nonempty_loops=True).solve()
        for c in rots:
            short = c["callee"].split("::")[-1]
            st = dp.state_before(c)
            din = dp.deps(call_args(c)[0], st)
            mesh = any(a in din for a in ("C:getDX", "C:getDXs"))
            orig = any(a in din for a in ("C:getX0", "C:getX0s"))
            fwd = short == "rotateDirect"
            ok = (mesh and not orig) if fwd else (orig and not mesh)
            n += 1
            chk.analysed(f)
            chk.ob("C16x", "%s: the vector handed to %s depends on %s and not on %s" % (
                       f.name, short, "the mesh size" if fwd else "the origin", "the origin" if fwd else "the mesh size"), f.loc(c), ok,
                   detail=None if ok else "the vector handed to %s depends on {%s}: %s" % (
                       short, ", ".join(sorted(a for a in din if a.startswith("C:get"))),
                       "the origin is added before rotating (the grid turns about the point (0,0) instead of about its own origin) / the mesh is "
                       "not applied before rotating" if fwd else "the mesh is applied before un-rotating / the origin is not removed before un-rotating"),
                   key="C16x|%s|%s-input" % (f.name, short))
            if fwd:
                ok2 = False
                for x in f.walk():
                    if (x["k"] == "BinOp" and x.get("op") == "+") or (x["k"] in ("Assign", "OpCall", "CompoundAssign") and x.get("op") == "+="):
                        st2 = dp.state_before(x)
                        l, r = dp.deps(x["c"][0], st2), dp.deps(x["c"][1], st2)
                        if ("C:rotateDirect" in l and "C:getX0" in r and "C:rotateDirect" not in r) or \
                                ("C:rotateDirect" in r and "C:getX0" in l and "C:rotateDirect" not in l):
                            ok2 = True
                n += 1
                chk.ob("C16x", "%s: the origin is added to the rotated vector" % f.name, f.loc(), ok2,
                       detail=None if ok2 else "no sum of the rotated vector and the origin after rotateDirect", key="C16x|%s|origin-after" % f.name)
    chk.floor("C16x", n, 5)


CONV_INOUT = {"indicesToCoordinateInPlace": (0, 1), "coordinateToIndicesInPlace": (0, 1), "rankToCoordinatesInPlace": (None, 1),
              "rankToIndice": (None, 1)}


def _root(n):
    from e2_deps import var_key
    return var_key(n)


def _writes_var(x, key):
    """statement-level node x writes (an element of) the variable `key`"""
    from e2_deps import var_key
    k = x["k"]
    if k in ("Assign", "CompoundAssign") or (k == "OpCall" and (x.get("op") or "").endswith("=") and x.get("op") not in ("==", "!=", "<=", ">=")):
        return var_key(x["c"][0]) == key
    if k == "UnOp" and x.get("op") in ("++", "--"):
        return var_key(x["c"][0]) == key
    return False


def stale_outputs(prog, chk):
    """C16s - a coordinate (index) vector obtained from an index (coordinate) vector by a grid conversion is up to date where it
    is used: on no path is the INPUT vector modified after the conversion and the OUTPUT then read without converting again
    (db_grid_reduce must convert the corner indices AFTER the margins have been applied to them)."""
    from e2_deps import var_key
    n = 0
    for f in sorted(prog.funcs, key=lambda x: (x.file, x.line)):
        if f.cfg is None:
            continue
        sites = []
        for c in f.calls():
            short = (c.get("callee") or "").split("::")[-1]
            if short not in CONV_INOUT or (c.get("cls") or "") not in ("Grid", "DbGrid"):
                continue
            i_in, i_out = CONV_INOUT[short]
            a = call_args(c)
            if i_in is None or i_in >= len(a) or i_out >= len(a) or a[i_in] is None or a[i_out] is None:
                continue
            kin, kout = var_key(a[i_in]), var_key(a[i_out])
            if kin is None or kout is None or kin == kout or kin[0] != "L" or kout[0] != "L":
                continue
            sites.append((c, short, kin, kout))
        if not sites:
            continue
        g = CFG(f)
        for c, short, kin, kout in sites:
            if g.pos_of(c) is None:
                continue
            n += 1
            recompute = lambda y, kout=kout: (y["k"] in CALL_KINDS and any(var_key(z) == kout for z in call_args(y) if z is not None) and
                                              (y.get("callee") or "").split("::")[-1] in CONV_INOUT) or _writes_var(y, kout) or \
                (y["k"] == "VarDecl" and ("L", y.get("d"), y.get("n")) == kout)
            w1 = g.search(g.after(c), is_target=lambda y, kin=kin: _writes_var(y, kin), is_barrier=recompute)
            bad = None
            if w1 is not None:
                hit = w1["hit"]
                reads_out = lambda y, kout=kout, hit=hit: y["i"] != hit["i"] and any(
                    z["k"] == "DeclRefExpr" and ("L", z.get("d"), z.get("n")) == kout for z in walk(y))
                w2 = g.search(g.after(hit), is_target=reads_out, is_barrier=recompute)
                if w2 is not None:
                    bad = (hit, w2)
            if bad:
                chk.analysed(f)
            chk.ob("C16s", "%s: `%s` obtained by %s from `%s` is not read after `%s` has changed" % (f.name, kout[2], short, kin[2], kin[2]),
                   f.loc(c), bad is None,
                   detail=None if bad is None else "`%s` is modified at line %s after the conversion and `%s` is read afterwards (line %s) without "
                   "converting again: the coordinates belong to the old indices" % (kin[2], f.loc(bad[0]).split(":")[-1], kout[2], f.loc(bad[1]["hit"]).split(":")[-1]),
                   key="C16s|%s|%s<-%s" % (f.name, kout[2], kin[2]), nontrivial=bad is not None,
                   path=None if bad is None else g.describe(bad[1]))
    chk.floor("C16s", n, 5)


def option_forwarding(prog, chk):
    """C16o - an option of a point-to-cell routine (`centered`, `eps`, ...) is honoured on every branch: when a function hands
    one of its own parameters to a Grid / DbGrid conversion routine in one call, every other call of the same routine in that
    function hands it too (a call that falls back on the default argument ignores what the caller asked)."""
    n = 0
    for f in sorted(prog.funcs, key=lambda x: (x.file, x.line)):
        if f.body is None:
            continue
        pd = {p["d"]: p["n"] for p in f.params}
        by = {}
        for c in f.calls():
            if c.get("callee") and (c.get("cls") or "") in ("Grid", "DbGrid"):
                by.setdefault((c["callee"], c.get("sig")), []).append(c)
        for (cal, sig), cs in sorted(by.items(), key=lambda kv: kv[0][0]):
            if len(cs) < 2:
                continue
            width = max(len(call_args(c)) for c in cs)
            for k in range(width):
                def arg(c):
                    a = call_args(c)
                    x = a[k] if k < len(a) else None
                    while x is not None and x["k"] == "Cast":
                        x = x["c"][0]
                    return x
                fw = [c for c in cs if arg(c) is not None and arg(c)["k"] == "DeclRefExpr" and arg(c).get("d") in pd]
                if not fw:
                    continue
                pname = pd[arg(fw[0])["d"]]
                for c in cs:
                    if c in fw:
                        continue
                    x = arg(c)
                    dropped = x is None or x["k"] == "DefaultArg"
                    n += 1
                    if dropped:
                        chk.analysed(f)
                    chk.ob("C16o", "%s: option `%s` handed to %s on every call" % (f.name, pname, cal.split("::")[-1]), f.loc(c), not dropped,
                           detail=None if not dropped else "another call of %s in the same function receives the parameter `%s`; this one falls back on "
                           "the default value: the option is ignored on this branch" % (cal.split("::")[-1], pname),
                           key="C16o|%s|%s.%s" % (f.name, cal.split("::")[-1], pname), nontrivial=dropped)
                for c in fw:
                    n += 1
                    chk.ob("C16o", "%s: option `%s` handed to %s on every call" % (f.name, pname, cal.split("::")[-1]), f.loc(c), True,
                           key="C16o|%s|%s.%s" % (f.name, cal.split("::")[-1], pname))
    chk.floor("C16o", n, 4)


def compare_uses_argument(prog, chk):
    """C16c - a comparison method compares with its argument.  In the `isSame*` methods of Rotation and Grid every `==` / `!=` test
    that involves a member or a getter of `this` has the parameter on its other side: `_angles[i] != getAngle(i)` compares the object
    with itself and declares any two rotations identical."""
    n = 0
    for f in sorted(prog.funcs, key=lambda x: (x.file, x.line)):
        if f.body is None or f.cls not in ("Rotation", "Grid") or not f.short.startswith("isSame") or not f.params:
            continue
        pd = {p_["d"] for p_ in f.params if f.cls in p_["t"]}
        if not pd:
            continue
        for x in f.walk():
            if x["k"] != "BinOp" or x.get("op") not in ("==", "!="):
                continue
            def side(e):
                this_ = any((y["k"] == "MemberExpr" and y.get("mk") == "field" and (not y.get("c") or y["c"][0] is None or y["c"][0]["k"] == "This")) or
                            (y["k"] == "MCall" and (call_obj(y) is None or call_obj(y)["k"] == "This")) for y in walk(e))
                arg_ = any(y["k"] == "DeclRefExpr" and y.get("d") in pd for y in walk(e))
                return this_, arg_
            l, r = side(x["c"][0]), side(x["c"][1])
            if not (l[0] or r[0]):
                continue
            n += 1
            ok = l[1] or r[1]
            chk.analysed(f)
            chk.ob("C16c", "%s: `%s` compares with the argument" % (f.sig(), show(x)[:50]), f.loc(x), ok,
                   detail=None if ok else "both sides are taken from `this`: the test can never tell two different objects apart", key="C16c|%s|%s" % (f.name, show(x)[:40]))
    chk.floor("C16c", n, 4)


def main(tier):
    chk = Check("C16", tier,
                "Static dependence shape of the sibling grid conversion routines (flow-sensitive reaching dependences over the CFG): "
                "forward conversions rotate with the direct matrix a vector that depends on the mesh size and not on the origin, and add "
                "the origin afterwards; inverse conversions rotate with the inverse matrix a vector that depends on the origin and not on "
                "the mesh size, and divide by the mesh afterwards; the Rotation class keeps its two matrices in step; the integer index is a "
                "floor; derived grids take their origin from the parent's conversion (result used, no axis shift of a rotated origin, no "
                "per-direction scaling after rotation). Integer rank arithmetic, half-cell / eps constants, node counts of derived grids and "
                "point-to-cell assignment are NOT decided.")
    units = [os.path.join(REPO, u) for u in UNITS]
    d = extract(units, "C16-" + tier)
    prog = Program().load_dir(d)
    chk.units = list(prog.units)
    n = 0
    for role, names in (("forward", FORWARD), ("inverse", INVERSE)):
        for name in names:
            fs = [f for f in prog.fns(name) if f.cfg is not None]
            if not fs:
                raise facts.AnalysisBroken("conversion routine %s not found" % name)
            for f in fs:
                rots = [c for c in f.calls() if (c.get("callee") or "").endswith(("Rotation::rotateDirect", "Rotation::rotateInverse"))]
                if not rots:
                    continue          # overload that delegates
                chk.analysed(f)
                dp = Deps(f, rot_out_params).solve()
                sig = "%s/%d" % (f.name, len(f.params))
                want = "rotateDirect" if role == "forward" else "rotateInverse"
                for c in rots:
                    n += 1
                    short = c["callee"].split("::")[-1]
                    chk.ob("C16", "%s (%s): rotates with %s" % (f.sig(), role, want), f.loc(c), short == want,
                           detail=None if short == want else "a %s conversion applies %s: the conversion and its inverse no longer compose to the "
                           "identity on a rotated grid" % (role, short), key="C16|%s|rotation-kind" % sig)
                    st = dp.state_before(c)
                    a = call_args(c)
                    din = dp.deps(a[0], st)
                    need, forbid = (MESH, ORIGIN) if role == "forward" else (ORIGIN, MESH)
                    n += 1
                    ok = need in din and forbid not in din
                    chk.ob("C16", "%s (%s): the rotated vector depends on %s and not on %s" % (
                               f.sig(), role, "the mesh size" if role == "forward" else "the origin",
                               "the origin" if role == "forward" else "the mesh size"), f.loc(c), ok,
                           detail=None if ok else "the vector handed to %s depends on {%s}: %s" % (
                               short, ", ".join(sorted(x for x in din if x.startswith("F:"))),
                               ("the origin is shifted before rotating / the mesh is not applied before rotating" if role == "forward"
                                else "the mesh is applied before un-rotating / the origin is not removed before un-rotating")),
                           key="C16|%s|rotation-input" % sig)
                # after the rotation
                n += 1
                if role == "forward":
                    ok = False
                    for x in f.walk():
                        if (x["k"] == "BinOp" and x.get("op") == "+") or (x["k"] == "Assign" and x.get("op") == "+="):
                            st = dp.state_before(x)
                            l, r = dp.deps(x["c"][0], st), dp.deps(x["c"][1], st)
                            if ("C:rotateDirect" in l and ORIGIN in r and "C:rotateDirect" not in r) or \
                                    ("C:rotateDirect" in r and ORIGIN in l and "C:rotateDirect" not in l):
                                ok = True
                    chk.ob("C16", "%s (forward): the origin is added to the rotated vector" % f.sig(), f.loc(), ok,
                           detail=None if ok else "no sum of the rotated vector and the origin", key="C16|%s|origin-after" % sig)
                elif name.endswith("coordinateToIndicesInPlace"):
                    ok = False
                    for x in f.walk():
                        if x["k"] == "BinOp" and x.get("op") == "/":
                            st = dp.state_before(x)
                            l, r = dp.deps(x["c"][0], st), dp.deps(x["c"][1], st)
                            if "C:rotateInverse" in l and MESH in r:
                                ok = True
                    chk.ob("C16", "%s (inverse): the un-rotated vector is divided by the mesh size" % f.sig(), f.loc(), ok,
                           detail=None if ok else "no division of the un-rotated vector by the mesh", key="C16|%s|mesh-after" % sig)
                else:
                    n -= 1
    # integer index of a coordinate: rounded DOWN (floor), never truncated towards zero (a point just below the origin would get
    # index 0 instead of -1 and be reported inside the grid)
    ncast = 0
    for name in INVERSE:
        for f in [f for f in prog.fns(name) if f.body is not None]:
            for x in f.walk():
                if x["k"] != "Cast" or (x.get("t") or "") != "int" or not x.get("c") or x["c"][0] is None:
                    continue
                e = x["c"][0]
                while e["k"] == "Cast" and (e.get("t") or "") != "int":
                    e = e["c"][0]
                if e["k"] == "Call" and (e.get("callee") or "") in ("floor", "std::floor"):
                    ncast += 1
                    n += 1
                    chk.ob("C16", "%s (inverse): the index is the floor of the scaled coordinate" % f.sig(), f.loc(x), True,
                           key="C16|%s/%d|floor#%d" % (f.name, len(f.params), ncast))
                elif e["k"] == "BinOp" and e.get("op") in ("+", "-", "*", "/") and any(
                        (y["k"] == "BinOp" and y.get("op") == "/") or y["k"] == "Float" for y in walk(e)):
                    ncast += 1
                    n += 1
                    chk.analysed(f)
                    chk.ob("C16", "%s (inverse): the index is the floor of the scaled coordinate" % f.sig(), f.loc(x), False,
                           detail="`(int)(%s)` truncates towards zero: a coordinate less than one mesh below the origin gets index 0 instead of -1, so a "
                           "point outside the grid is assigned to a cell (and the conversion is no longer the inverse of indices -> coordinates)" % show(e)[:50],
                           key="C16|%s/%d|floor#%d" % (f.name, len(f.params), ncast))
    if ncast < 2:
        raise facts.AnalysisBroken("C16: integer conversions of the inverse routines not found (%d)" % ncast)
    # results of the conversion functions are used: a value-returning const conversion called as a statement computes nothing
    # (Grid::dilate called indicesToCoordinate(indice, percent) for its side effect on a scratch vector)
    ndisc = 0
    conv = {f.name for f in prog.funcs if f.cls in ("Grid", "Rotation") and f.body is not None and not f.ret.startswith(("void", "bool", "int"))}
    for f in sorted(prog.funcs, key=lambda x: (x.file, x.line)):
        if f.body is None or f.cls not in ("Grid", "Rotation"):
            continue
        for c in f.calls():
            if c["k"] != "MCall" or c.get("callee") not in conv:
                continue
            # overloads: judged only when every overload with this number of arguments returns a value
            cands = [g for g in prog.fns(c["callee"]) if len(g.params) >= len(call_args(c))]
            if not cands or any(g.ret.startswith(("void", "bool", "int")) for g in cands):
                continue
            ndisc += 1
            par = f.parent(c)
            dropped = par is not None and (par["k"] in ("Block", "For", "While", "ForRange", "Do") or (par["k"] == "If" and par["c"][0] is not c))
            if dropped:
                chk.analysed(f)
            n += 1
            chk.ob("C16", "%s: the result of %s is used" % (f.name, c["callee"].split("::")[-1]), f.loc(c), not dropped,
                   detail=None if not dropped else "the conversion returns its result by value and the call drops it: what the caller reads afterwards is a "
                   "scratch member, not the converted coordinates", key="C16|%s|result-of-%s" % (f.name, c["callee"].split("::")[-1]),
                   nontrivial=dropped)
    if ndisc < 3:
        raise facts.AnalysisBroken("C16: calls of value-returning conversions not found (%d)" % ndisc)
    # derived grids: a function that builds a grid from the origin, mesh AND rotation of a parent must not shift the origin along
    # the axes (`x0[i] += k * dx[i]`): on a rotated parent the node k is at x0 + R (k dx); the origin of the child comes from the
    # parent's own indices -> coordinates conversion
    nder = 0
    for f in sorted(prog.funcs, key=lambda x: (x.file, x.line)):
        if f.body is None:
            continue
        src = {}        # local decl -> ("X0"|"DX"|"ANG", receiver)
        for x in f.walk():
            if x["k"] == "VarDecl" and x.get("c") and x["c"][0] is not None:
                for y in walk(x["c"][0]):
                    if y["k"] == "MCall" and (y.get("callee") or "").split("::")[-1] in ("getX0s", "getDXs", "getAngles", "getRotMat"):
                        o = call_obj(y)
                        kind = {"getX0s": "X0", "getDXs": "DX", "getAngles": "ANG", "getRotMat": "ANG"}[y["callee"].split("::")[-1]]
                        src[x["d"]] = (kind, "this" if (o is None or o["k"] == "This") else show(o))
        x0s = {d: r for d, (k, r) in src.items() if k == "X0"}
        if not x0s:
            continue
        for d, recv in sorted(x0s.items()):
            forwards_rot = any(k == "ANG" and r == recv for (k, r) in src.values())
            if not forwards_rot:
                continue
            nder += 1
            n += 1
            bad = None
            for x in f.walk():
                if x["k"] in ("Assign", "OpCall") and x.get("op") in ("+=", "-=", "=") and len(x.get("c") or []) == 2:
                    l = x["c"][0]
                    base = l
                    elem = False
                    while base is not None and (base["k"] in ("Index", "Cast") or (base["k"] == "OpCall" and base.get("op") == "[]")):
                        elem = elem or base["k"] != "Cast"
                        base = base["c"][0]
                    if not elem or base is None or base["k"] != "DeclRefExpr" or base.get("d") != d:
                        continue
                    uses_dx = any((y["k"] == "DeclRefExpr" and src.get(y.get("d"), ("", ""))[0] == "DX") or
                                  (y["k"] == "MCall" and (y.get("callee") or "").split("::")[-1] in ("getDX", "getDXs")) for y in walk(x["c"][1]))
                    if uses_dx:
                        bad = x
                        break
            chk.analysed(f)
            chk.ob("C16", "%s: the origin of the grid derived from %s is not shifted along the axes of a possibly rotated parent" % (f.name, recv),
                   f.loc(bad) if bad else f.loc(), bad is None,
                   detail=None if bad is None else "`%s` moves the origin by a multiple of the mesh along the coordinate axes while the rotation of the parent is "
                   "forwarded to the child: on a rotated parent the nodes of the child are not those of the parent" % show(bad)[:60],
                   key="C16|%s|derived-origin" % f.name)
    if nder < 2:
        raise facts.AnalysisBroken("C16: grid derivations not found (%d)" % nder)
    # derivation routines of Grid (multiple / divider / dilate): what comes out of the indices -> coordinates conversion is a
    # point of the rotated system; scaling its components by per-direction factors mixes the rotated axes
    nscal = 0
    for name in ("Grid::multiple", "Grid::divider", "Grid::dilate"):
        fs = [f for f in prog.fns(name) if f.cfg is not None]
        if not fs:
            raise facts.AnalysisBroken("derivation routine %s not found" % name)
        for f in fs:
            def conv_out(call):
                cal = call.get("callee") or ""
                if cal.endswith("::indicesToCoordinateInPlace"):
                    return [1]
                return None
            dp = Deps(f, conv_out).solve()
            bad = None
            for x in f.walk():
                if x["k"] == "BinOp" and x.get("op") in ("*", "/"):
                    st = dp.state_before(x)
                    l, r = dp.deps(x["c"][0], st), dp.deps(x["c"][1], st)
                    rot = lambda s_: any(a.startswith("C:indicesToCoordinate") for a in s_)
                    par = lambda s_: any(a.startswith("P:") for a in s_) and not rot(s_)
                    if (rot(l) and par(r)) or (rot(r) and par(l)):
                        bad = x
                        break
            nscal += 1
            n += 1
            chk.analysed(f)
            chk.ob("C16", "%s: no coordinate produced by the conversion is scaled by a per-direction factor" % f.sig(), f.loc(bad) if bad else f.loc(), bad is None,
                   detail=None if bad is None else "`%s` multiplies / divides a rotated coordinate component by a factor of its own direction: on a rotated grid "
                   "with different factors the origin of the derived grid is misplaced" % show(bad)[:50],
                   key="C16|%s|scaled-after-rotation" % f.name)
    # Rotation class
    rd = [f for f in prog.fns("Rotation::rotateDirect")]
    ri = [f for f in prog.fns("Rotation::rotateInverse")]

    def reads(fs, field):
        seen = set()
        work = list(fs)
        while work:
            f = work.pop()
            if f.usr in seen:
                continue
            seen.add(f.usr)
            for x in f.walk():
                if x["k"] == "MemberExpr" and x["n"] == field:
                    return True
                if x["k"] == "MCall" and x.get("cls") == "Rotation":
                    work += prog.fns(x["callee"])
        return False
    n += 2
    chk.ob("C16", "Rotation::rotateDirect applies the direct matrix", rd[0].loc() if rd else "src/Basic/Rotation.cpp",
           bool(rd) and reads(rd, "_rotMat") and not reads(rd, "_rotInv"), key="C16|Rotation::rotateDirect|matrix")
    chk.ob("C16", "Rotation::rotateInverse applies the inverse matrix", ri[0].loc() if ri else "src/Basic/Rotation.cpp",
           bool(ri) and reads(ri, "_rotInv") and not reads(ri, "_rotMat"), key="C16|Rotation::rotateInverse|matrix")
    # mutators keep the two matrices in step (co-update rule of C07)
    # setValues / setIdentity / reset on the matrix objects are also modifications: extend with member calls on the fields
    for f in prog.funcs:
        if f.cls != "Rotation" or f.body is None or f.kind != "method":
            continue
        touched = {}
        for x in f.walk():
            if x["k"] == "MCall" and not x.get("cconst"):
                o = call_obj(x)
                if o is not None and o["k"] == "MemberExpr" and o["n"] in ("_rotMat", "_rotInv") and (not o.get("c") or o["c"][0] is None or o["c"][0]["k"] == "This"):
                    touched.setdefault(o["n"], x)
            if x["k"] in ("Assign", "OpCall") and x.get("op") == "=" and x["c"][0] is not None and x["c"][0]["k"] == "MemberExpr" and \
                    x["c"][0]["n"] in ("_rotMat", "_rotInv"):
                touched.setdefault(x["c"][0]["n"], x)
            # the angles are the third representation of the same rotation: assigned as a whole, filled, or computed in place
            # from the matrix (`resize` keeps the old elements: it is not a rewrite)
            if x["k"] in ("Assign", "OpCall") and x.get("op") == "=" and x["c"][0] is not None and x["c"][0]["k"] == "MemberExpr" and x["c"][0]["n"] == "_angles":
                touched.setdefault("_angles", x)
            if x["k"] in ("Call", "MCall") and (x.get("callee") or "").split("::")[-1] in ("rotationGetAnglesInPlace", "fill", "rotationGetAngles"):
                if any(y["k"] == "MemberExpr" and y["n"] == "_angles" for a_ in call_args(x) if a_ is not None for y in walk(a_)) or \
                        (call_obj(x) is not None and call_obj(x)["k"] == "MemberExpr" and call_obj(x)["n"] == "_angles"):
                    touched.setdefault("_angles", x)
            if x["k"] == "MCall" and (x.get("callee") or "").endswith(("::_directToInverse",)):
                touched.setdefault("_rotInv", x)
            if x["k"] == "MCall" and (x.get("callee") or "").endswith(("::_inverseToDirect",)):
                touched.setdefault("_rotMat", x)
        mats = {k_: v for k_, v in touched.items() if k_ != "_angles"}
        if mats and f.short not in ("_directToInverse", "_inverseToDirect"):
            n += 1
            ok = len(mats) == 2
            chk.analysed(f)
            chk.ob("C16", "%s: changes the direct and the inverse matrix together" % f.sig(), f.loc(), ok,
                   detail=None if ok else "only %s is modified: rotateDirect and rotateInverse stop being inverse of each other" % list(mats)[0],
                   key="C16|%s/%d|both-matrices" % (f.name, len(f.params)))
            n += 1
            ok = "_angles" in touched
            chk.ob("C16", "%s: rewrites the angles together with the matrices" % f.sig(), f.loc(), ok,
                   detail=None if ok else "the matrices are replaced and `_angles` is not assigned / filled / recomputed (a `resize` keeps the old "
                   "elements): getAngles() reports the previous rotation, and every grid derived from the angles of this one is rotated differently "
                   "from its parent", key="C16|%s/%d|angles-with-matrices" % (f.name, len(f.params)))
    chk.floor("C16", n, 25)
    external_siblings(prog, chk)
    stale_outputs(prog, chk)
    option_forwarding(prog, chk)
    compare_uses_argument(prog, chk)
    import c16_more
    c16_more.index_range_rule(prog, chk, tuple(UNITS))
    c16_more.validation_subject_rule(prog, chk, tuple(UNITS))
    c16_more.geometry_columns_rule(prog, chk)
    c16_more.conversion_status_rule(prog, chk)
    return chk.finish()
