"""C16 - further structural rules (wave 9)."""
from facts import show, call_obj, call_args, walk


def _strip(e):
    while e is not None and e["k"] in ("Cast", "Paren") and e.get("c"):
        e = e["c"][0]
    return e


def index_range_rule(prog, chk, files):
    """C16b - an index is inside exactly when 0 <= index < count.  Every refusal of the form `i < 0 || i OP count` (count not a literal) uses
    `>=`: with `>` the index `count` - the node just past the last one, whose cell does not exist - is reported inside (and wraps to the
    next row once converted to a rank), contradicting the sibling conversions."""
    n = 0
    for f in sorted(prog.funcs, key=lambda x: (x.file, x.line)):
        if f.body is None or not any(f.file.endswith(s_) for s_ in files):
            continue
        for x in f.walk():
            if x["k"] != "BinOp" or x.get("op") != "||":
                continue
            l, r = _strip(x["c"][0]), _strip(x["c"][1])
            if l is None or r is None or l["k"] != "BinOp" or r["k"] != "BinOp" or l.get("op") != "<" or r.get("op") not in (">", ">="):
                continue
            z = _strip(l["c"][1])
            if z is None or z["k"] != "Int" or z.get("v") != 0 or show(_strip(l["c"][0])) != show(_strip(r["c"][0])):
                continue
            b = _strip(r["c"][1])
            if b is None or b["k"] in ("Int", "Float"):
                continue
            n += 1
            ok = r["op"] == ">="
            if not ok:
                chk.analysed(f)
            chk.ob("C16b", "%s: `%s` refuses the index equal to the count" % (f.name, show(x)[:60]), f.loc(x), ok,
                   detail=None if ok else "`%s` equal to `%s` is accepted as inside: a point in the cell of the non-existent node past the upper edge is "
                   "assigned to the grid (the %d sibling tests of these files use `>=`)" % (show(_strip(l["c"][0])), show(b), max(n - 1, 0)),
                   key="C16b|%s|%s" % (f.name, show(x)[:40]), nontrivial=not ok)
    chk.floor("C16b", n, 15)


def validation_subject_rule(prog, chk, files):
    """C16v - a validation inside a loop tests the element, not the counter.  `for (i = 0; i < n; i++) if (i < 0 || ...)` can never fire: the
    ranks to remove in DbGrid::createFromGridShrink were not validated and a rank outside [0, ndim[ erased past the end of the grid vectors."""
    n = 0
    for f in sorted(prog.funcs, key=lambda x: (x.file, x.line)):
        if f.body is None or not any(f.file.endswith(s_) for s_ in files):
            continue
        for L in f.walk():
            if L["k"] != "For" or len(L["c"]) < 4 or L["c"][3] is None or L["c"][0] is None:
                continue
            lv = None
            for z in walk(L["c"][0]):
                if z["k"] == "VarDecl" and z.get("c") and z["c"][0] is not None and _strip(z["c"][0])["k"] == "Int" and _strip(z["c"][0]).get("v") == 0:
                    lv = z["d"]
                    break
            if lv is None:
                continue
            for x in walk(L["c"][3]):
                if x["k"] == "BinOp" and x.get("op") == "<" and _strip(x["c"][1]) is not None and _strip(x["c"][1])["k"] == "Int" and \
                        _strip(x["c"][1]).get("v") == 0 and _strip(x["c"][0]) is not None:
                    n += 1
                    a = _strip(x["c"][0])
                    bad = a["k"] == "DeclRefExpr" and a.get("d") == lv
                    if bad:
                        chk.analysed(f)
                    chk.ob("C16v", "%s: the test `%s` looks at a value the loop does not fix" % (f.name, show(x)), f.loc(x), not bad,
                           detail=None if not bad else "`%s` is the loop counter, which starts at 0 and only grows: the validation can never fire, the elements "
                           "it was meant for are not validated" % show(a), key="C16v|%s|%s" % (f.name, show(x)), nontrivial=bad)
    chk.floor("C16v", n, 10)


def geometry_columns_rule(prog, chk):
    """C16g - the coordinates STORED by a grid data base are written for every node.  A loop that converts the rank of a node to its coordinates
    (`rankToCoordinatesInPlace`) and stores them (`setCoordinate`) must not skip the masked nodes: their stored coordinates would keep the
    initial constant and contradict the geometry as soon as the selection changes."""
    n = 0
    for f in sorted(prog.funcs, key=lambda x: (x.file, x.line)):
        if f.body is None or f.cls != "DbGrid":
            continue
        for L in f.walk():
            if L["k"] != "For" or len(L["c"]) < 4 or L["c"][3] is None:
                continue
            calls = [z for z in walk(L["c"][3]) if z["k"] in ("MCall", "Call")]
            conv = [z for z in calls if (z.get("callee") or "").split("::")[-1] in ("rankToCoordinatesInPlace", "rankToCoordinates")]
            store = [z for z in calls if (z.get("callee") or "").split("::")[-1] in ("setCoordinate", "setArray", "setFromLocator")]
            if not conv or not store:
                continue
            n += 1
            gate = [z for z in calls if (z.get("callee") or "").split("::")[-1] in ("isActive", "getSelection", "isActiveAndDefined")]
            ok = not gate
            chk.analysed(f)
            chk.ob("C16g", "%s: the coordinates of every node are stored" % f.name, f.loc(L), ok,
                   detail=None if ok else "the loop consults `%s`: the masked nodes keep the constant the columns were created with instead of "
                   "their location" % show(gate[0])[:40], key="C16g|%s" % f.name)
    chk.floor("C16g", n, 1)


def conversion_status_rule(prog, chk):
    """C16e - a point without node is not given one.  `coordinateToIndicesInPlace` answers 0 (node found), 1 (outside) or -1 (undefined
    coordinate, wrong dimension: the indices were not computed).  A caller that keeps the status in a variable must test it for every
    non-zero value (`if (err)`, `err != 0`, or `err < 0` next to `err > 0`): testing `err > 0` alone lets the -1 through and converts
    indices that were never computed (the grid origin)."""
    n = 0
    for f in sorted(prog.funcs, key=lambda x: (x.file, x.line)):
        if f.body is None:
            continue
        for x in f.walk():
            if x["k"] != "VarDecl" or not x.get("c") or x["c"][0] is None:
                continue
            c = _strip(x["c"][0])
            if c is None or c["k"] not in ("Call", "MCall") or (c.get("callee") or "").split("::")[-1] != "coordinateToIndicesInPlace":
                continue
            n += 1
            d = x["d"]
            ops = set()
            for y in f.walk():
                if y["k"] == "If" and y["c"][-3] is not None:
                    for z in walk(y["c"][-3]):
                        if z["k"] == "BinOp" and z.get("op") in ("<", ">", "!=", "==", "<=", ">=") and _strip(z["c"][0]) is not None and \
                                _strip(z["c"][0])["k"] == "DeclRefExpr" and _strip(z["c"][0]).get("d") == d:
                            ops.add(z["op"])
                    cc = _strip(y["c"][-3])
                    if cc is not None and cc["k"] == "DeclRefExpr" and cc.get("d") == d:
                        ops.add("!=")
            ok = bool(ops & {"!=", "==", "<", "<="})
            chk.analysed(f)
            chk.ob("C16e", "%s: the failure status of the conversion to indices is not taken for a node" % f.name, f.loc(x), ok,
                   detail=None if ok else "`%s` is only tested with %s: the status -1 (undefined coordinate, wrong dimension) passes and the indices, "
                   "which were not computed, are converted back to coordinates" % (x["n"], ", ".join(sorted(ops)) or "nothing"),
                   key="C16e|%s|%s" % (f.name, x["n"]))
    chk.floor("C16e", n, 1)
