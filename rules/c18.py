#!/usr/bin/env python3
"""C18 - data transforms and their inverses compose to the identity.

Decided part (static; nothing is run): the CLOSED-FORM pieces of two transform pairs are evaluated exactly, from the
statement trees of the current source, on a finite set of representatives that covers every branch ordering, and the
composition inverse(forward(x)) is compared with x:

 C18a  PCA::_center / PCA::_uncenter (normalisation of the variables before / after the factor rotation): for the four
       combinations of (flag_center, flag_scale) and positive sigma, uncenter(center(x)) == x and center(uncenter(x)) == x.
 C18b  the two directions use them as mirror images: _pcaZ2F centres THEN multiplies by _Z2F, _pcaF2Z multiplies by _F2Z
       THEN un-centres, with the same literal flags; dbZ2F / dbF2Z call the matching routine with the same members.
 C18c  every function of PCA that writes one of the two transition matrices writes the other one too.
 C18e  AnamEmpirical::rawToTransformValue / transformToRawValue (two linear interpolations in one table): exact evaluation of both
       bodies below, on, between and above the nodes; round trip (clamped to the table) and monotonicity.
 C18d  AnamHermite::rawToTransformValue / transformToRawValue outside the practical interval (the linear extension up to
       the absolute bounds, and the clamping beyond them): for every position of the value relative to the four bounds,
       including bounds that coincide, y -> z -> y and z -> y -> z return the starting value (clamped to the absolute
       interval), and both functions are non-decreasing across the zones.  Interval::isOutsideBelow / isOutsideAbove are
       interpreted from their own source.

 C18f  copy constructor and assignment of PCA / AnamHermite / AnamEmpirical / AnamContinuous / Interval agree on every member.
 C18g  a sum and the counter it is divided by (means / variances that define the PCA, MAF) are updated behind the same guards.

NOT decided: the Hermite expansion and its bisection inverse inside the practical interval, how the empirical table is fitted,
orthonormality of the Hermite polynomials, that F2Z is numerically the inverse of Z2F (eigenvector algebra), normal scores,
MAF, decorrelation and unit variance of the factors."""
import os
import sys
from fractions import Fraction

sys.path.insert(0, os.path.dirname(os.path.abspath(__file__)))
import facts
from facts import REPO, Program, extract, show, call_obj, call_args, walk, CALL_KINDS
from e2_deps import Deps
from e6_abseval import Interp, Unsupported, Return, Continue, Break
from report import Check

UNITS = ["src/Stats/PCA.cpp", "src/Anamorphosis/AnamHermite.cpp", "src/Basic/Interval.cpp", "src/Anamorphosis/AnamContinuous.cpp",
         "src/Anamorphosis/AnamEmpirical.cpp"]
TESTV = Fraction(123456789012345678901234567890)   # stands for TEST (never equal to a representative)


class Obj:
    """an object of the analysed program: class name + fields"""

    def __init__(self, cls, **fields):
        self.cls = cls
        self.f = dict(fields)


class Interp2(Interp):
    """E6 interpreter + fields of `this`, subscripted vectors (python lists), member calls interpreted from their source"""

    def __init__(self, prog, this, env, depth=0):
        Interp.__init__(self, env, call_hook=self.hook)
        self.prog = prog
        self.this = this
        self.depth = depth

    # -- lvalues
    def _elem(self, n):
        base, idx = n["c"][0], n["c"][1]
        v = self.ev(base)
        i = self.ev(idx)
        if not isinstance(v, list):
            raise Unsupported("subscript of a non-vector")
        return v, int(i)

    def ev(self, n):
        if n is None:
            raise Unsupported("empty expression")
        k = n["k"]
        if k == "MemberExpr" and n.get("mk") == "field":
            b = (n.get("c") or [None])[0]
            o = self.this if (b is None or b["k"] == "This") else self.ev(b)
            if not isinstance(o, Obj) or n["n"] not in o.f:
                raise Unsupported("field " + n.get("n", "?"))
            return o.f[n["n"]]
        if k == "This":
            return self.this
        if k == "Index" or (k == "OpCall" and n.get("op") == "[]"):
            v, i = self._elem(n)
            return v[i]
        if k == "Paren":
            return self.ev(n["c"][0])
        if k == "Assign":
            self.run(n)
            return self.ev(n["c"][0])
        if k == "BinOp" and n.get("op") == ",":
            self.ev(n["c"][0])
            return self.ev(n["c"][1])
        if k == "UnOp" and n.get("op") in ("--", "post--") and n["c"][0] is not None and n["c"][0]["k"] == "DeclRefExpr":
            key = n["c"][0].get("d")
            old = self.env[key]
            self.env[key] = old - 1
            return old if n["op"] == "post--" else old - 1
        return Interp.ev(self, n)

    def run(self, n):
        if n is None:
            return
        k = n["k"]
        c = n.get("c") or []
        if k == "Assign" and c[0] is not None and (c[0]["k"] == "Index" or (c[0]["k"] == "OpCall" and c[0].get("op") == "[]")):
            vec, i = self._elem(c[0])
            v = self.ev(c[1])
            op = n.get("op")
            vec[i] = {"=": lambda a, b: b, "+=": lambda a, b: a + b, "-=": lambda a, b: a - b,
                      "*=": lambda a, b: a * b, "/=": lambda a, b: a / b}[op](vec[i], v)
            return
        if k == "For":
            init, cond, inc, body = c[0], c[1], c[2], c[3]
            self.run(init)
            trips = 0
            while cond is None or self.truth(self.ev(cond)):
                trips += 1
                if trips > 64:
                    raise Unsupported("loop bound")
                try:
                    self.run(body)
                except Continue:
                    pass
                except Break:
                    break
                if inc is not None:
                    self.ev(inc)
            return
        if k == "UnOp" and n.get("op") in ("post++", "++", "post--", "--") and c[0] is not None and c[0]["k"] == "DeclRefExpr":
            self.ev(n)
            return
        return Interp.run(self, n)

    # -- calls
    def hook(self, n, _self):
        cal = n.get("callee") or ""
        short = cal.split("::")[-1]
        a = call_args(n)
        if short == "size" and n["k"] == "MCall":
            v = self.ev(call_obj(n))
            if isinstance(v, list):
                return Fraction(len(v))
        if short == "FFFF":
            return self.ev(a[0]) == TESTV
        if short in ("ABS", "abs", "fabs"):
            return abs(self.ev(a[0]))
        if short == "isEqual":
            return self.ev(a[0]) == self.ev(a[1])
        if short == "isZero":
            return self.ev(a[0]) == 0
        if n["k"] == "MCall":
            o = call_obj(n)
            recv = self.this if (o is None or o["k"] == "This") else self.ev(o)
            if isinstance(recv, Obj):
                return call_method(self.prog, recv, short, [self.ev(x) for x in a if x is not None and x["k"] != "DefaultArg"], self.depth + 1)
        raise Unsupported("call " + cal)


def call_method(prog, obj, short, args, depth=0):
    if depth > 6:
        raise Unsupported("call depth")
    cands = [f for f in prog.fns(obj.cls + "::" + short) if f.body is not None]
    if not cands:
        for b in prog.bases(obj.cls):
            cands = [f for f in prog.fns(b + "::" + short) if f.body is not None]
            if cands:
                break
    if not cands:
        # inline getters of the header are not in the unit facts: a getter `getXxx` of a field `_xxx`
        for fld in obj.f:
            if short.lower() in ("get" + fld.lstrip("_").lower(), "is" + fld.lstrip("_").lower()):
                return obj.f[fld]
        raise Unsupported("no body for %s::%s" % (obj.cls, short))
    f = [g for g in cands if len([p for p in g.params]) >= len(args)][0]
    env = {}
    for p, v in zip(f.params, args):
        env[p["d"]] = v
    it = Interp2(prog, obj, env, depth)
    try:
        it.run(f.body)
    except Return as r:
        return r.v
    return None


# ------------------------------------------------------------------------------------------------ PCA
def pca_rules(prog, chk):
    cen = [f for f in prog.fns("PCA::_center") if f.body is not None]
    unc = [f for f in prog.fns("PCA::_uncenter") if f.body is not None]
    if not cen or not unc:
        raise facts.AnalysisBroken("PCA::_center / _uncenter not found")
    cen, unc = cen[0], unc[0]
    pca = Obj("PCA")
    n = 0
    reps = [[Fraction(7, 2), Fraction(-3)], [Fraction(0), Fraction(5, 3)]]
    mean = [Fraction(2), Fraction(-1, 2)]
    sigma = [Fraction(3, 2), Fraction(4)]
    for fc in (True, False):
        for fs in (True, False):
            for first, second, nm in ((cen, unc, "uncenter(center(x))"), (unc, cen, "center(uncenter(x))")):
                bad = None
                try:
                    for x in reps:
                        data = list(x)
                        for g in (first, second):
                            env = {}
                            for p, v in zip(g.params, (data, list(mean), list(sigma), fc, fs)):
                                env[p["d"]] = v
                            it = Interp2(prog, pca, env)
                            try:
                                it.run(g.body)
                            except Return:
                                pass
                        if data != x:
                            bad = "x = (%s) comes back as (%s)" % (", ".join(map(str, x)), ", ".join(map(str, data)))
                            break
                except Unsupported as e:
                    raise facts.AnalysisBroken("C18a: PCA::_center/_uncenter left the interpreted fragment: %s" % e)
                n += 1
                chk.analysed(cen)
                chk.analysed(unc)
                chk.ob("C18a", "PCA: %s == x with flag_center=%s flag_scale=%s (exact evaluation of both bodies)" % (nm, fc, fs), cen.loc(), bad is None,
                       detail=None if bad is None else "%s: the normalisation applied before the factor rotation is not undone after the inverse rotation "
                       "(variables -> factors -> variables does not return the variables)" % bad,
                       key="C18a|%s|%s|%s" % (nm, fc, fs))
    chk.floor("C18a", n, 8)

    # C18b: mirror use
    nb = 0
    roles = (("PCA::_pcaZ2F", "_center", "_Z2F", "_F2Z", True), ("PCA::_pcaF2Z", "_uncenter", "_F2Z", "_Z2F", False))
    lits = {}
    for name, norm, mat, other, norm_first in roles:
        fs_ = [f for f in prog.fns(name) if f.cfg is not None]
        if not fs_:
            raise facts.AnalysisBroken("%s not found" % name)
        f = fs_[0]
        chk.analysed(f)
        ncalls = [c for c in f.calls() if (c.get("callee") or "").endswith("PCA::" + norm)]
        prods = [c for c in f.calls() if c["k"] == "MCall" and (c.get("callee") or "").split("::")[-1].startswith("prodMatVec")]
        uses = {x["n"] for x in f.walk() if x["k"] == "MemberExpr" and x.get("mk") == "field" and x["n"] in ("_Z2F", "_F2Z")}
        nb += 1
        ok = uses == {mat}
        chk.ob("C18b", "%s multiplies by %s only" % (name, mat), f.loc(), ok,
               detail=None if ok else "the routine reads %s: the direction of the transform and the matrix it applies do not match" % sorted(uses),
               key="C18b|%s|matrix" % name)
        nb += 1
        ok = len(ncalls) == 1 and len(prods) == 1
        chk.ob("C18b", "%s calls %s once and one matrix product" % (name, norm), f.loc(), ok,
               detail=None if ok else "%d call(s) of %s and %d product(s)" % (len(ncalls), norm, len(prods)), key="C18b|%s|calls" % name)
        if not ok:
            continue
        dp = Deps(f, lambda call: [0] if (call.get("callee") or "").endswith(("PCA::_center", "PCA::_uncenter")) else None).solve()
        nb += 1
        if norm_first:
            st = dp.state_before(prods[0])
            d_in = dp.deps(call_args(prods[0])[0], st)
            ok = "C:" + norm in d_in
            why = "the vector multiplied by %s has not been centred first" % mat
        else:
            st = dp.state_before(ncalls[0])
            d_in = dp.deps(call_args(ncalls[0])[0], st)
            ok = any(a.startswith("C:prodMatVec") for a in d_in)
            why = "the vector handed to %s is not the product by %s" % (norm, mat)
        chk.ob("C18b", "%s: %s" % (name, "centre, then rotate" if norm_first else "rotate, then un-centre"), f.loc(ncalls[0]), ok,
               detail=None if ok else why + ": the two directions are not mirror images", key="C18b|%s|order" % name)
        lits[name] = [show(a) for a in call_args(ncalls[0])[3:5]]
    nb += 1
    ok = len(lits) == 2 and lits["PCA::_pcaZ2F"] == lits["PCA::_pcaF2Z"]
    chk.ob("C18b", "_pcaZ2F and _pcaF2Z normalise with the same (flag_center, flag_scale)", "src/Stats/PCA.cpp", ok,
           detail=None if ok else "forward uses %s, backward uses %s: what is removed on the way to the factors is not what is restored on the way back" % (
               lits.get("PCA::_pcaZ2F"), lits.get("PCA::_pcaF2Z")), key="C18b|flags")
    for pub, priv in (("PCA::dbZ2F", "PCA::_pcaZ2F"), ("PCA::dbF2Z", "PCA::_pcaF2Z")):
        fs_ = [f for f in prog.fns(pub) if f.body is not None]
        if not fs_:
            raise facts.AnalysisBroken("%s not found" % pub)
        f = fs_[0]
        cs = [c for c in f.calls() if (c.get("callee") or "") in ("PCA::_pcaZ2F", "PCA::_pcaF2Z")]
        nb += 1
        ok = len(cs) == 1 and cs[0]["callee"] == priv and [show(a) for a in call_args(cs[0])[3:5]] == ["this->_mean", "this->_sigma"] or \
            (len(cs) == 1 and cs[0]["callee"] == priv and [show(a).replace("this->", "") for a in call_args(cs[0])[3:5]] == ["_mean", "_sigma"])
        chk.analysed(f)
        chk.ob("C18b", "%s applies %s with the stored mean and sigma" % (pub, priv.split("::")[-1]), f.loc(), ok,
               detail=None if ok else "calls: %s" % [(c["callee"], [show(a) for a in call_args(c)[3:5]]) for c in cs], key="C18b|%s|role" % pub)
    chk.floor("C18b", nb, 9)

    # C18c: co-update of the two matrices
    nc = 0
    for f in sorted(prog.funcs, key=lambda x: x.line):
        if f.cls != "PCA" or f.body is None or f.kind not in ("method",):
            continue
        wr = set()
        for x in f.walk():
            if x["k"] in ("Assign", "OpCall") and x.get("op") == "=" and x["c"][0] is not None and x["c"][0]["k"] == "MemberExpr" and x["c"][0]["n"] in ("_Z2F", "_F2Z"):
                wr.add(x["c"][0]["n"])
            if x["k"] == "MCall":
                short = (x.get("callee") or "").split("::")[-1]
                if short in ("_setZ2F", "_setF2Z"):
                    wr.add("_Z2F" if short == "_setZ2F" else "_F2Z")
                o = call_obj(x)
                if o is not None and o["k"] == "MemberExpr" and o["n"] in ("_Z2F", "_F2Z") and not x.get("cconst") and short not in ("resize",):
                    wr.add(o["n"])
        if not wr or f.short in ("_setZ2F", "_setF2Z"):
            continue
        nc += 1
        ok = len(wr) == 2
        chk.analysed(f)
        chk.ob("C18c", "%s: writes both transition matrices" % f.sig(), f.loc(), ok,
               detail=None if ok else "only %s is written: the matrix of the other direction keeps the values of a previous calculation" % sorted(wr)[0],
               key="C18c|%s" % f.name)
    chk.floor("C18c", nc, 3)


# ------------------------------------------------------------------------------------------------ anamorphosis
def anam_rules(prog, chk, tier="quick"):
    r2t = [f for f in prog.fns("AnamHermite::rawToTransformValue") if f.body is not None]
    t2r = [f for f in prog.fns("AnamHermite::transformToRawValue") if f.body is not None]
    if not r2t or not t2r or not [f for f in prog.fns("Interval::isOutsideBelow") if f.body is not None]:
        raise facts.AnalysisBroken("AnamHermite transforms / Interval predicates not found")
    F = Fraction

    incl = [True, True]

    def interval(lo, hi):
        return Obj("Interval", _vmin=lo, _vmax=hi, _minIncluded=incl[0], _maxIncluded=incl[1])

    # bounds configurations: strictly nested, and practical bounds that coincide with the absolute ones (either side / both)
    configs = []
    for pzlo, pylo in ((F(2), F(-3)), (F(0), F(-5))):
        for pzhi, pyhi in ((F(8), F(3)), (F(10), F(5))):
            configs.append(dict(az=(F(0), F(10)), pz=(pzlo, pzhi), ay=(F(-5), F(5)), py=(pylo, pyhi)))
    n = 0
    # thorough: open / closed bounds of the four intervals and a denser set of representatives in each extension zone
    variants = [(True, True)] if tier != "thorough" else [(True, True), (False, True), (True, False), (False, False)]
    dens = (4,) if tier != "thorough" else (2, 3, 5, 7, 11)
    for cf0 in configs:
      for inc in variants:
        cf = dict(cf0)
        incl[0], incl[1] = inc
        inc_tag = "" if inc == (True, True) else " min%s max%s" % ("incl" if inc[0] else "excl", "incl" if inc[1] else "excl")

        def mk(inc=inc):
            incl[0], incl[1] = inc
            return Obj("AnamHermite", _flagBound=True, _az=interval(*cf["az"]), _pz=interval(*cf["pz"]),
                         _ay=interval(*cf["ay"]), _py=interval(*cf["py"]), _nbPoly=Fraction(5))
        tag = "pz=[%s,%s] in az=[%s,%s]%s" % (cf["pz"][0], cf["pz"][1], cf["az"][0], cf["az"][1], inc_tag)
        for fwd, bwd, A, P, name in (("rawToTransformValue", "transformToRawValue", cf["az"], cf["pz"], "z -> y -> z"),
                                     ("transformToRawValue", "rawToTransformValue", cf["ay"], cf["py"], "y -> z -> y")):
            # representatives OUTSIDE the practical interval: beyond / on the absolute bounds, inside each extension zone
            reps = [A[0] - 1, A[0], A[1], A[1] + 1]
            for dd in dens:
                if P[0] > A[0]:
                    reps += [A[0] + (P[0] - A[0]) / dd, A[0] + (P[0] - A[0]) * (dd - 1) / dd]
                if P[1] < A[1]:
                    reps += [P[1] + (A[1] - P[1]) / dd, P[1] + (A[1] - P[1]) * (dd - 1) / dd]
            reps = sorted(set(reps))
            bad = None
            images = []
            try:
                for v in reps:
                    if P[0] <= v <= P[1]:
                        continue          # inside the practical interval: Hermite expansion, not decided
                    try:
                        w = call_method(prog, mk(), fwd, [v])
                    except Unsupported as e:
                        if "hermiteCondExpElement" in str(e):
                            continue
                        raise
                    images.append((v, w))
                    try:
                        back = call_method(prog, mk(), bwd, [w])
                    except Unsupported as e:
                        if "hermiteCondExpElement" in str(e):
                            continue      # the image falls on a practical bound: the way back goes through the expansion
                        raise
                    expect = min(max(v, A[0]), A[1])
                    if back != expect:
                        bad = "%s = %s gives %s, which comes back as %s (expected %s)" % (name.split(" ")[0], v, w, back, expect)
                        break
                if bad is None:
                    for (v1, w1), (v2, w2) in zip(images, images[1:]):
                        if w2 < w1:
                            bad = "not monotone: %s -> %s but %s -> %s" % (v1, w1, v2, w2)
                            break
            except Unsupported as e:
                raise facts.AnalysisBroken("C18d: %s left the interpreted fragment on a boundary zone: %s" % (fwd, e))
            except ZeroDivisionError:
                bad = "division by zero in a boundary zone"
            if not images and bad is None:
                continue
            n += 1
            chk.analysed(r2t[0])
            chk.analysed(t2r[0])
            chk.ob("C18d", "AnamHermite: %s outside the practical interval, %s (%d representatives, exact)" % (name, tag, len(images)),
                   (r2t[0] if fwd.startswith("raw") else t2r[0]).loc(), bad is None,
                   detail=None if bad is None else bad + ": the linear extension / clamping of one direction is not the inverse of the other's",
                   key="C18d|%s|%s" % (name, tag))
    chk.floor("C18d", n, 6)

def empirical_rules(prog, chk, tier="quick"):
    """C18e - AnamEmpirical: both directions are linear interpolations in the same table (_ZDisc, _YDisc).  Exact evaluation of both
    bodies on a strictly increasing table: for values below the table, on each node, inside each interval and above the table,
    z -> y -> z and y -> z -> y return the value clamped to the table, and both directions are non-decreasing."""
    r2t = [f for f in prog.fns("AnamEmpirical::rawToTransformValue") if f.body is not None]
    t2r = [f for f in prog.fns("AnamEmpirical::transformToRawValue") if f.body is not None]
    if not r2t or not t2r:
        raise facts.AnalysisBroken("AnamEmpirical transforms not found")
    F = Fraction
    tables = [([F(1), F(2), F(5), F(9)], [F(-2), F(-1, 2), F(1), F(3)]),          # generic
              ([F(0), F(1)], [F(-1), F(1)])]                                      # a single interval
    if tier == "thorough":
        tables += [([F(-7, 2), F(0), F(1, 10)], [F(-3), F(-1, 100), F(4)]),
                   ([F(1), F(2), F(3), F(50), F(51)], [F(-4), F(-1), F(0), F(1, 2), F(9)]),
                   ([F(-9), F(-8), F(-1), F(0), F(3), F(100)], [F(-3), F(-2), F(-1), F(1), F(2), F(3)])]
    n = 0
    for Z, Y in tables:
        def mk():
            return Obj("AnamEmpirical", _ZDisc=list(Z), _YDisc=list(Y), _nDisc=F(len(Z)))
        for fwd, bwd, T, name in (("rawToTransformValue", "transformToRawValue", Z, "z -> y -> z"),
                                  ("transformToRawValue", "rawToTransformValue", Y, "y -> z -> y")):
            reps = [T[0] - 1, T[-1] + 1] + list(T)
            for a, b in zip(T, T[1:]):
                reps += [a + (b - a) / 3, a + (b - a) * 3 / 4]
            reps = sorted(set(reps))
            bad = None
            images = []
            try:
                for v in reps:
                    w = call_method(prog, mk(), fwd, [v])
                    back = call_method(prog, mk(), bwd, [w])
                    images.append((v, w))
                    expect = min(max(v, T[0]), T[-1])
                    if back != expect:
                        bad = "%s = %s gives %s, which comes back as %s (expected %s)" % (name.split(" ")[0], v, w, back, expect)
                        break
                if bad is None:
                    for (v1, w1), (v2, w2) in zip(images, images[1:]):
                        if w2 < w1:
                            bad = "not monotone: %s -> %s but %s -> %s" % (v1, w1, v2, w2)
                            break
            except Unsupported as e:
                raise facts.AnalysisBroken("C18e: %s left the interpreted fragment: %s" % (fwd, e))
            except (ZeroDivisionError, IndexError) as e:
                bad = "%s while evaluating the interpolation (%s)" % (type(e).__name__, e)
            n += 1
            chk.analysed(r2t[0])
            chk.analysed(t2r[0])
            chk.ob("C18e", "AnamEmpirical: %s on a table of %d points (%d representatives, exact)" % (name, len(Z), len(reps)),
                   (r2t[0] if fwd.startswith("raw") else t2r[0]).loc(), bad is None,
                   detail=None if bad is None else bad + ": the interpolation of one direction is not the inverse of the other's",
                   key="C18e|%s|%d" % (name, len(Z)))
    chk.floor("C18e", n, 4)
    # C18j: an undefined value stays undefined through the scalar entry points (it must not be clamped like a large value)
    Z, Y = tables[0]
    UNDEF = (TESTV, Fraction(1.234e30))
    nj = 0
    for fn, ff in (("rawToTransformValue", r2t[0]), ("transformToRawValue", t2r[0])):
        try:
            w = call_method(prog, Obj("AnamEmpirical", _ZDisc=list(Z), _YDisc=list(Y), _nDisc=F(len(Z))), fn, [TESTV])
        except Unsupported as e:
            raise facts.AnalysisBroken("C18j: %s left the interpreted fragment: %s" % (fn, e))
        nj += 1
        ok = w in UNDEF
        chk.ob("C18j", "AnamEmpirical::%s of an undefined value is undefined" % fn, ff.loc(), ok,
               detail=None if ok else "the undefined value (1.234e30) is clamped to the end of the table and comes back as %s: an undefined datum becomes "
               "a defined transformed value" % w, key="C18j|%s" % fn)
    chk.floor("C18j", nj, 2)

def stats_rules(prog, chk):
    """C18g - the statistics that define a transform (means, variances, covariances of the PCA / MAF) divide each sum by the count of the
    samples that entered it (c05_skip.guard_agreement_rule: sum and counter updated behind the same `continue` guards).
    C18f - copy constructor and assignment of the transform classes agree on every member (copyrule.py)."""
    import c05_skip
    c05_skip.guard_agreement_rule(prog, chk, "C18g", ("src/Stats/PCA.cpp", "src/Anamorphosis/AnamHermite.cpp", "src/Anamorphosis/AnamEmpirical.cpp"), 2)
    # C18h: the two normalisations of a statistic (n / n-1 switch) divide the same sum by the same counter
    files = ("src/Stats/PCA.cpp", "src/Anamorphosis/AnamHermite.cpp", "src/Anamorphosis/AnamEmpirical.cpp")

    def strip(e):
        while e is not None and e["k"] in ("Cast", "Paren") and e.get("c"):
            e = e["c"][0]
        return e

    def divs(b):
        return [(show(strip(z["c"][0])), {w["n"] for w in walk(z["c"][1]) if w["k"] in ("DeclRefExpr", "MemberExpr") and w.get("n")}, z)
                for z in walk(b) if z["k"] == "BinOp" and z.get("op") == "/"]
    nh = 0
    for f in sorted(prog.funcs, key=lambda x: (x.file, x.line)):
        if f.body is None or not any(s_ in f.file for s_ in files):
            continue
        for x in f.walk():
            if x["k"] != "If" or x["c"][-1] is None or x["c"][-2] is None:
                continue
            a, b = divs(x["c"][-2]), divs(x["c"][-1])
            if len(a) != 1 or len(b) != 1 or a[0][0] != b[0][0] or not a[0][1] or not b[0][1]:
                continue
            nh += 1
            ok = a[0][1] == b[0][1]
            chk.analysed(f)
            chk.ob("C18h", "%s: both normalisations of `%s` use the same count" % (f.name, a[0][0][:40]), f.loc(a[0][2]), ok,
                   detail=None if ok else "one branch divides by {%s}, the other by {%s}: with a selection or undefined values the two counts differ and the "
                   "factors are no longer of unit variance" % (", ".join(sorted(a[0][1])), ", ".join(sorted(b[0][1]))), key="C18h|%s|%s" % (f.name, a[0][0][:30]))
    chk.floor("C18h", nh, 1)
    import copyrule
    ncp = copyrule.copy_agreement(prog, chk, "C18f", classes=[c for c in prog.classes if c in ("PCA", "AnamHermite", "AnamEmpirical", "AnamContinuous", "Interval")])
    chk.floor("C18f", ncp, 3)


def main(tier):
    chk = Check("C18", tier,
                "Closed-form pieces only, by exact abstract evaluation of the current statement trees on representatives of every branch "
                "ordering: PCA normalisation and de-normalisation are inverse of each other for the four flag combinations and are used as "
                "mirror images by the two directions (centre then rotate / rotate then un-centre, same flags, matching matrix, both matrices "
                "written together); the boundary zones of the Hermite anamorphosis (linear extension between practical and absolute bounds, "
                "clamping beyond) are inverse of each other and monotone for every position of the value relative to the four bounds; the two interpolations of the "
                "empirical anamorphosis are inverse of each other on its table. The Hermite "
                "expansion and its bisection inverse, the fitting of the empirical table, eigenvector algebra (F2Z = inverse of Z2F), MAF, normal "
                "scores and the statistical properties of the factors are NOT decided.")
    units = [os.path.join(REPO, u) for u in UNITS]
    d = extract(units, "C18-" + tier)
    prog = Program().load_dir(d)
    chk.units = list(prog.units)
    pca_rules(prog, chk)
    anam_rules(prog, chk, tier)
    empirical_rules(prog, chk, tier)
    stats_rules(prog, chk)
    return chk.finish()


if __name__ == "__main__":
    import argparse
    ap = argparse.ArgumentParser()
    ap.add_argument("--tier", default="quick")
    sys.exit(main(ap.parse_args().tier))
