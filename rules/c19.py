"""C19 - a calculation completes or leaves its data bases untouched (DESIGN.md section C19).
 R19.1 ACalculator::run: every stage failure throws, every handler rolls back and returns false
 R19.2 every column a calculator creates on its data bases goes through the registrar (_addVariableDb)
 R19.3 roll-back completeness: every status a class registers variables with is cleaned by its _rollback
 R19.4 every role change of the input data base that _postprocess restores is also restored by _rollback
 R19.5 a failing branch of a stage function reports failure (no `return 1` / `return true` on the error side)
"""
import os

import facts
from facts import REPO, Program, extract, show, call_obj, call_args, walk, is_call, CALL_KINDS
from e1_paths import CFG, peel_cond, single_def
from report import Check

UNITS = """src/Basic/NamingConvention.cpp src/Anamorphosis/CalcAnamTransform.cpp src/Calculators/ACalcDbToDb.cpp src/Calculators/ACalcDbVarCreator.cpp
src/Calculators/ACalcInterpolator.cpp src/Calculators/ACalculator.cpp src/Calculators/CalcGridToGrid.cpp
src/Calculators/CalcMigrate.cpp src/Calculators/CalcSimuPost.cpp src/Calculators/CalcStatistics.cpp
src/Estimation/CalcGlobal.cpp src/Estimation/CalcImage.cpp src/Estimation/CalcKriging.cpp
src/Estimation/CalcKrigingFactors.cpp src/Estimation/CalcSimpleInterpolation.cpp src/Simulation/ACalcSimulation.cpp
src/Simulation/CalcSimuEden.cpp src/Simulation/CalcSimuFFT.cpp src/Simulation/CalcSimuPartition.cpp
src/Simulation/CalcSimuRefine.cpp src/Simulation/CalcSimuSubstitution.cpp src/Simulation/CalcSimuTurningBands.cpp
src/Simulation/SimuBoolean.cpp src/Simulation/SimuSpherical.cpp src/Simulation/SimuSpectral.cpp""".split()

STAGES = ["_check", "_preprocess", "_run", "_postprocess"]
REGISTRARS = {"ACalcDbToDb::_addVariableDb": 1, "ACalcDbVarCreator::_addVariableDb": 0}   # index of the status argument
CLEANERS = {"ACalcDbToDb::_cleanVariableDb", "ACalcDbVarCreator::_cleanVariableDb"}
# R19.2: direct creations confirmed harmless by reading/replay; one named site per row, with the reason
R192_ACCEPTED = {
    ("CalcAnamTransform::_preprocess", "addColumnsByConstant"):
        "the outputs are created in _preprocess and no later stage of CalcAnamTransform can fail (every branch of _run "
        "ends in success, _postprocess returns true; replayed 2026-10-02, replays/C19/R19.2_CalcAnamTransform.cpp), so the "
        "columns cannot outlive a failed calculation; any other class creating columns directly is still reported",
}
DB_ACCESSORS = {"getDbin", "getDbout", "getDb", "getGridin", "getGridout"}
DB_FIELDS = {"_dbin", "_dbout", "_db"}


def calc_classes(prog):
    return sorted(c for c in prog.classes if "ACalculator" in prog.bases(c))


def reachable_methods(prog, cls, start_short, nparams=None):
    """bodies run by a call of `start_short` on an object of class cls, following calls on `this`
    (resolved through the hierarchy from cls)."""
    seen = {}
    st = [start_short]
    while st:
        s = st.pop()
        if s in seen:
            continue
        f = prog.method_impl(cls, s)
        seen[s] = f
        if f is None or f.body is None:
            continue
        for n in f.walk():
            if n["k"] == "MCall":
                o = call_obj(n)
                if (o is None or o["k"] == "This") and n.get("callee"):
                    qual = n["callee"]
                    short = qual.split("::")[-1]
                    # explicit base-class call Base::m() runs that body, not the most derived one
                    if not n.get("virt") or show(n).startswith(qual.split("::")[0] + "::"):
                        pass
                    st.append(short)
    return {k: v for k, v in seen.items() if v is not None}


def int_values(f, n, depth=0):
    """possible literal int values of expression n (through a local's single definition and ?:)"""
    if n is None or depth > 4:
        return None
    if n["k"] == "Int":
        return {n["v"]}
    if n["k"] == "Cond":
        a = int_values(f, n["c"][1], depth + 1)
        b = int_values(f, n["c"][2], depth + 1)
        if a is None or b is None:
            return None
        return a | b
    if n["k"] == "DeclRefExpr" and n.get("dk") == "var":
        d = single_def(f, n["d"])
        if d is not None:
            return int_values(f, d, depth + 1)
    return None


def db_rooted(n):
    """the expression designates one of the calculator's data bases"""
    while n is not None:
        k = n["k"]
        c = n.get("c") or []
        if k == "MCall":
            short = (n.get("callee") or "").split("::")[-1]
            o = c[0] if c else None
            if short in DB_ACCESSORS and (o is None or o["k"] == "This"):
                return True
            return False
        if k == "MemberExpr":
            if n["n"] in DB_FIELDS and (not c or c[0] is None or c[0]["k"] == "This"):
                return True
            return False
        if k == "Cast" and c:
            n = c[0]
            continue
        if k == "DeclRefExpr":
            return None      # a local: resolved by caller
        return False
    return False


def r19_1(prog, chk):
    run = prog.fn("ACalculator::run")
    chk.analysed(run)
    tries = [n for n in run.walk() if n["k"] == "Try"]
    chk.floor("R19.1-try", len(tries), 1)
    t = tries[0]
    body = t["c"][0]
    handlers = t["c"][1:]
    # stages
    for st in STAGES:
        calls = [n for n in walk(body) if n["k"] == "MCall" and (n.get("callee") or "").endswith("::" + st)]
        ok = False
        where = run.loc()
        for c in calls:
            where = run.loc(c)
            # enclosing If with failing polarity whose then-branch throws
            for a in run.ancestors(c):
                if a["k"] == "If":
                    cond = [x for x in a["c"] if x is not None][0]
                    core, pol = peel_cond(cond)
                    if core is not None and core["i"] == c["i"] and pol is False:
                        then = a["c"][-2]
                        if any(x["k"] == "Throw" or (x["k"] == "Call" and x.get("callee") == "throw_exp") for x in walk(then)):
                            ok = True
                    break
        chk.ob("R19.1", "ACalculator::run: a failed %s() throws" % st, where, ok and len(calls) == 1,
               detail=None if ok else "the stage result is not turned into the exception that triggers the roll-back",
               key="R19.1|ACalculator::run|" + st)
    chk.floor("R19.1-handlers", len(handlers), 1)
    for h in handlers:
        hasrb = any(n["k"] == "MCall" and (n.get("callee") or "").endswith("::_rollback") for n in walk(h))
        rets = [n for n in walk(h) if n["k"] == "Return"]
        retf = bool(rets) and all((r.get("c") or [None])[0] is not None and r["c"][0]["k"] == "Bool" and r["c"][0]["v"] is False for r in rets)
        chk.ob("R19.1", "ACalculator::run: handler of %s rolls back and returns false" % h.get("t", "..."), run.loc(h),
               hasrb and retf, detail=None if (hasrb and retf) else "a catch clause does not call _rollback() or does not return false",
               key="R19.1|ACalculator::run|catch %s" % h.get("t", "..."))
    # catch-all coverage: the exception thrown by my_throw (AException) and std::exception are both handled
    types = {h.get("t", "") for h in handlers}
    ok = any("AException" in t for t in types) and any("std::exception" in t for t in types)
    chk.ob("R19.1", "ACalculator::run: handlers cover AException and std::exception", run.loc(t), ok,
           key="R19.1|ACalculator::run|handler-types")


def r19_2(prog, chk, classes):
    """who-may-create: column-creating Db methods on the calculator's data bases only inside the registrars"""
    creators = set()
    for cname in ("Db", "DbGrid"):
        for m in prog.classes.get(cname, {}).get("methods", []):
            if m["n"].startswith(("addColumns", "addSelection")) and m["ret"].startswith("int") and not m.get("static"):
                creators.add(m["q"])
    if not creators:
        raise facts.AnalysisBroken("Db column-creating methods not found")
    n = 0
    for f in prog.funcs:
        if f.cls not in classes and f.cls not in ("ACalculator",):
            continue
        if f.name in REGISTRARS:
            continue
        chk.analysed(f)
        for c in f.calls():
            if c.get("callee") not in creators:
                continue
            o = call_obj(c)
            r = db_rooted(o)
            if r is None and o is not None and o["k"] == "DeclRefExpr":
                d = single_def(f, o["d"])
                r = db_rooted(d) if d is not None else False
            if not r:
                continue
            n += 1
            # accepted: the created identifiers are handed to the registry afterwards
            g = CFG(f) if f.cfg else None
            registered = any(x["k"] == "MCall" and (x.get("callee") or "").endswith("::_storeInVariableList") for x in f.walk())
            acc = (f.name, c["callee"].split("::")[-1])
            if not registered and acc in R192_ACCEPTED:
                registered = True
                if ("R19.2 accepted instance %s: %s" % (acc[0], R192_ACCEPTED[acc])) not in chk.assumptions:
                    chk.assumptions.append("R19.2 accepted instance %s: %s" % (acc[0], R192_ACCEPTED[acc]))
            chk.ob("R19.2", "%s: %s on a calculator data base is registered for roll-back" % (f.name, show(c)[:60]), f.loc(c),
                   registered,
                   detail=None if registered else "the column is created directly on the data base, not through _addVariableDb(): "
                   "_rollback()/_cleanVariableDb() do not know it and it survives a failed calculation",
                   key="R19.2|%s|%s" % (f.name, c["callee"].split("::")[-1]))
    # the registrars themselves do register
    for rname in REGISTRARS:
        f = prog.fn(rname)
        chk.analysed(f)
        g = CFG(f)
        creates = [c for c in f.calls() if c.get("callee") in creators]
        for c in creates:
            n += 1
            # every path from the creation to a successful return stores the identifiers
            def is_store(x):
                return x["k"] == "MCall" and (x.get("callee") or "").endswith("::_storeInVariableList")

            def good_return(x):
                if x["k"] != "Return":
                    return False
                v = (x.get("c") or [None])[0]
                return not (v is not None and v["k"] == "UnOp" and v.get("op") == "-")   # not `return -1`
            wit = g.search(g.after(c), is_target=good_return, is_barrier=is_store)
            chk.ob("R19.2", "%s: created columns are stored in the roll-back list before a successful return" % rname,
                   f.loc(c), wit is None, key="R19.2|%s|store" % rname, path=None if wit is None else g.describe(wit))
    chk.floor("R19.2", n, 2)


def r19_3_4(prog, chk, classes):
    nst = 0
    nrole = 0
    concrete = [c for c in classes if not prog.classes[c].get("abstract")]
    chk.extra["calculator_classes"] = concrete
    for K in concrete:
        stage_methods = {}
        for st in STAGES:
            stage_methods.update(reachable_methods(prog, K, st))
        rb_methods = reachable_methods(prog, K, "_rollback")
        post_methods = reachable_methods(prog, K, "_postprocess")
        if "_rollback" not in rb_methods:
            raise facts.AnalysisBroken("no _rollback body resolved for " + K)
        for f in list(stage_methods.values()) + list(rb_methods.values()):
            chk.analysed(f)
        # --- R19.3
        statuses = {}
        for short, f in stage_methods.items():
            if f.name in REGISTRARS:
                continue
            for c in f.calls():
                if c.get("callee") in REGISTRARS:
                    a = call_args(c)
                    idx = REGISTRARS[c["callee"]]
                    vals = int_values(f, a[idx]) if idx < len(a) else None
                    if vals is None:
                        vals = {1, 2}
                        chk.notes.append("status of %s in %s not resolved: both values assumed" % (show(c)[:40], f.name))
                    for v in vals:
                        statuses.setdefault(v, []).append((f, c))
        cleaned = set()
        for short, f in rb_methods.items():
            for c in f.calls():
                if c.get("callee") in CLEANERS:
                    vals = int_values(f, call_args(c)[0])
                    if vals:
                        cleaned |= vals
        rb = rb_methods["_rollback"]
        for s, sites in sorted(statuses.items()):
            nst += 1
            f0, c0 = sites[0]
            ok = s in cleaned
            chk.ob("R19.3", "%s: variables registered with status %d are cleaned by %s" % (K, s, rb.name), rb.loc(), ok,
                   detail=None if ok else "%s (%s) registers variables with status %d (%s), but the roll-back path only cleans status %s: "
                   "they stay in the data base after a failed calculation" % (
                       f0.name, f0.loc(c0), s, "temporary" if s == 2 else "permanent", sorted(cleaned) or "nothing"),
                   key="R19.3|%s|status%d" % (K, s))
        # --- R19.4 restoring calls of _postprocess on the input data base
        def restoring(f):
            out = []
            for c in f.calls():
                cal = c.get("callee") or ""
                short = cal.split("::")[-1]
                if cal.startswith("Db::") and (short.startswith("setLocator") or short.startswith("clearLocators")):
                    o = call_obj(c)
                    if o is not None and o["k"] == "MCall" and (o.get("callee") or "").endswith("::getDbin"):
                        out.append((c, "getDbin()->%s(%s)" % (short, ", ".join(show(a) for a in call_args(c)))))
                elif short == "_expandInformation":
                    a = call_args(c)
                    if a and a[0] is not None and a[0]["k"] == "UnOp" and a[0].get("op") == "-":
                        out.append((c, "_expandInformation(%s)" % ", ".join(show(x) for x in a)))
            return out
        def guard_texts(f, c):
            """conditions under which the call is made (texts of the enclosing If conditions, split on &&; tests of the data base
            pointer itself are not conditions on the state)"""
            out = set()
            child = c
            for a in f.ancestors(c):
                if a["k"] == "If" and len(a["c"]) >= 2:
                    pol = a["c"][1] is child
                    work = [a["c"][0]]
                    while work:
                        e = work.pop()
                        while e is not None and e["k"] == "Cast":
                            e = e["c"][0]
                        if e is not None and e["k"] == "BinOp" and e.get("op") == "&&" and pol:
                            work += e["c"]
                        elif e is not None:
                            t_ = ("" if pol else "!") + show(e)
                            if "getDbin() != nullptr" not in t_ and "hasDbin" not in t_:
                                out.add(t_)
                child = a
            return out
        rb_restores = set()
        rb_guards = {}
        for f in rb_methods.values():
            for c, t in restoring(f):
                rb_restores.add(t)
                rb_guards.setdefault(t, []).append((f, c, guard_texts(f, c)))
        for short, f in post_methods.items():
            for c, t in restoring(f):
                nrole += 1
                ok = t in rb_restores
                if ok:
                    # the roll-back restores it under no more conditions than _postprocess does
                    gp = guard_texts(f, c)
                    extra = None
                    for (rf, rc, gr) in rb_guards[t]:
                        if gr - gp:
                            extra = (rf, rc, sorted(gr - gp))
                        else:
                            extra = None
                            break
                    nrole += 1
                    chk.ob("R19.4", "%s: `%s` is restored by _rollback under no more conditions than by _postprocess" % (K, t),
                           extra[0].loc(extra[1]) if extra else f.loc(c), extra is None,
                           detail=None if extra is None else "_postprocess restores `%s` %s, the failure path only when %s: when that does not hold a failed "
                           "calculation leaves the changed roles" % (t, "under {%s}" % ", ".join(sorted(gp)) if gp else "unconditionally", " and ".join(extra[2])),
                           key="R19.4|%s|%s|guards" % (K, t))
                chk.ob("R19.4", "%s: role restore `%s` of _postprocess is also done by _rollback" % (K, t), f.loc(c), ok,
                       detail=None if ok else "_postprocess puts the input data base back with `%s`; the failure path (%s) does not, "
                       "so a failed calculation leaves the changed roles" % (t, rb.name),
                       key="R19.4|%s|%s" % (K, t))
    chk.floor("R19.3", nst, 18)
    chk.floor("R19.4", nrole, 4)


def r19_5(prog, chk, classes):
    """failure branches of the stage functions report failure"""
    n = 0
    scope = {}
    for K in classes:
        for st in STAGES:
            for short, f in reachable_methods(prog, K, st).items():
                if f.cls in classes and f.ret.startswith("bool") and f.cfg is not None and \
                        not short.lstrip("_").startswith(("is", "has")):
                    scope[f.usr] = f
    for f in sorted(scope.values(), key=lambda x: x.name):
        chk.analysed(f)
        for r in f.walk():
            if r["k"] != "Return":
                continue
            v = (r.get("c") or [None])[0]
            if v is None:
                continue
            success_lit = (v["k"] == "Int" and v["v"] != 0) or (v["k"] == "Bool" and v["v"] is True)
            if not success_lit:
                continue
            # is this return on the failing side of a status test, or right after an error message?
            why = None
            p = f.parent(r)
            blk = p if p is not None and p["k"] == "Block" else None
            holder = r if blk is None else blk
            ifn = f.parent(holder)
            if blk is not None:
                # messerr before the return inside the same block
                for sib in blk["c"]:
                    if sib is r:
                        break
                    if sib is not None and sib["k"] == "Call" and sib.get("callee") == "messerr":
                        why = "follows an error message"
            if ifn is not None and ifn["k"] == "If":
                slots = ifn["c"]
                then = slots[-2]
                if then is holder:
                    cond = [x for x in slots[:-2] if x is not None][-1]
                    core, pol = peel_cond(cond)
                    if core is not None and core["k"] == "DeclRefExpr" and core.get("dk") == "var":
                        d = single_def(f, core["d"])
                        if d is not None:
                            core = d
                    if core is not None and core["k"] == "BinOp" and core.get("op") == "<" and pol is True and \
                            core["c"][1] is not None and core["c"][1]["k"] == "Int" and core["c"][1]["v"] == 0:
                        why = "is taken when %s is negative (identifier convention: negative = error)" % show(core["c"][0])[:40]
                    if core is not None and core["k"] in ("Call", "MCall"):
                        rt = core.get("rt", "")
                        # the int-convention leak: only an *integer* literal returned on the error side of a status test
                        if v["k"] == "Int":
                            if rt.startswith("int") and pol is True:
                                why = "is taken when %s returns an error code" % show(core)[:50]
                            elif rt.startswith("bool") and pol is False:
                                why = "is taken when %s fails" % show(core)[:50]
            if v["k"] == "Bool" and why is None:
                continue       # plain `return true`
            if v["k"] == "Int" and why is None:
                # int literal in a bool stage without failure context: the final success return written as 1
                n += 1
                chk.ob("R19.5", "%s: `%s` is not on a failure branch" % (f.name, show(r)), f.loc(r), True,
                       key="R19.5|%s|plain-%d" % (f.name, n), nontrivial=False)
                continue
            n += 1
            chk.ob("R19.5", "%s: failure branch reports failure" % f.name, f.loc(r), False,
                   detail="`%s` in a bool stage function means success, but this return %s: the calculator reports success and "
                   "skips the roll-back" % (show(r), why),
                   key="R19.5|%s|%s" % (f.name, why))
        # count the stage as analysed even when clean
        n += 0
    # every stage function was looked at: obligation per function with no offending return
    for f in sorted(scope.values(), key=lambda x: x.name):
        if True:
            bad = [o for o in chk.obs if o["rule"] == "R19.5" and o["instance"].startswith(f.name + ":") and o["verdict"] != "ok"]
            if not bad:
                chk.ob("R19.5", "%s: no success literal on a failure branch" % f.name, f.loc(), True, key="R19.5|%s|clean" % f.name)
                n += 1
    chk.floor("R19.5", n, 50)


CREATE_COLS = ("addColumnsByConstant", "addColumns", "addColumnsByVVD", "addColumnsRandom", "addSelection", "addSelectionByRanks")
DELETE_COLS = ("deleteColumnByUID", "deleteColumnsByUID", "deleteColumnsByUIDRange")
R196_UNITS = ["src/Stats/Classical.cpp"]


def r19_6(prog, chk):
    """working columns of the statistics / calculator code: a column created into a local identifier that the same function
    deletes somewhere is temporary; every path from its creation to a SUCCESSFUL return must delete it (consistent on the
    repeated conditions: `if (A||B) create ... if (A) delete` leaks for B)"""
    n = 0
    for f in sorted(prog.funcs, key=lambda x: (x.file, x.line)):
        if f.cfg is None or not f.d.get("main"):
            continue
        creates = {}
        for x in f.walk():
            tgt = rhs = None
            if x["k"] == "VarDecl" and x.get("c"):
                tgt, rhs = (x["d"], x["n"]), x["c"][0]
            elif x["k"] == "Assign" and x.get("op") == "=" and x["c"][0] is not None and x["c"][0]["k"] == "DeclRefExpr" and x["c"][0].get("dk") == "var":
                tgt, rhs = (x["c"][0]["d"], x["c"][0]["n"]), x["c"][1]
            if rhs is not None and rhs["k"] == "MCall" and (rhs.get("callee") or "").split("::")[-1] in CREATE_COLS and (rhs.get("cls") or "").startswith("Db"):
                creates.setdefault(tgt, []).append(x)
        if not creates:
            continue
        g = CFG(f)
        for (d, name), sites in sorted(creates.items(), key=lambda kv: kv[0][1]):
            dels = [c for c in f.calls() if (c.get("callee") or "").split("::")[-1] in DELETE_COLS and
                    any(a is not None and any(y["k"] == "DeclRefExpr" and y.get("d") == d for y in walk(a)) for a in call_args(c))]
            # deletions made only when the returned error flag is set undo an OUTPUT on failure: they are roll-backs, not the
            # clean-up of a working column
            retvars = {y["d"] for r in f.walk() if r["k"] == "Return" and r.get("c") and r["c"][0] is not None
                       for y in walk(r["c"][0]) if y["k"] == "DeclRefExpr" and y.get("dk") == "var"}

            def rollback(c):
                child = c
                for a in f.ancestors(c):
                    if a["k"] == "If" and len(a["c"]) >= 2 and a["c"][1] is child:
                        conj, work = [], [a["c"][0]]
                        while work:
                            cnd = work.pop()
                            while cnd is not None and cnd["k"] == "Cast":
                                cnd = cnd["c"][0]
                            if cnd is not None and cnd["k"] == "BinOp" and cnd.get("op") == "&&":
                                work += cnd["c"]
                            elif cnd is not None:
                                conj.append(cnd)
                        if any(cnd["k"] == "DeclRefExpr" and cnd.get("d") in retvars for cnd in conj):
                            return True
                        # ... or the guarded block itself ends with a failure return
                        if any(y["k"] == "Return" and y.get("c") and y["c"][0] is not None and y["c"][0]["k"] == "Int" and y["c"][0]["v"] != 0
                               for y in walk(a["c"][1])):
                            return True
                    child = a
                return False
            dels = [c for c in dels if not rollback(c)]
            if not dels:
                continue                         # never deleted here (or only rolled back): an output of the function
            if any(r["k"] == "Return" and r.get("c") and r["c"][0] is not None and any(y["k"] == "DeclRefExpr" and y.get("d") == d for y in walk(r["c"][0]))
                   for r in f.walk()):
                continue                         # the identifier is returned: an output (deleted only on error paths)

            def edge_ok(blk, k, s_, d=d):
                c = g.cond(blk["b"])
                if c is None or len(blk["s"]) != 2:
                    return True
                core, pol = peel_cond(c)
                if core is not None and core["k"] == "BinOp" and core.get("op") in (">", ">=", "<") and core["c"][0] is not None and \
                        core["c"][0].get("d") == d and core["c"][1] is not None and core["c"][1]["k"] == "Int" and core["c"][1]["v"] == 0:
                    valid = core["op"] in (">", ">=")          # identifier convention: the created column has a valid identifier
                    return ((k == 0) == pol) == valid
                return True

            def success(r):
                v = (r.get("c") or [None])[0]
                if v is None:
                    return True
                if v["k"] == "Int":
                    return v["v"] == 0 if f.ret.startswith("int") else v["v"] != 0
                if v["k"] == "Bool":
                    return v["v"] is True
                return True
            isdel = lambda x: any(x["i"] == c["i"] for c in dels)
            pset = {p["d"] for p in f.params}

            def param_only_guard(c):
                """the deletion is conditional on plain parameters (and the validity of the identifier) only"""
                found = False
                child = c
                for a in f.ancestors(c):
                    if a["k"] == "If" and len(a["c"]) >= 2 and a["c"][1] is child:
                        for y in walk(a["c"][0]):
                            if y["k"] == "DeclRefExpr" and y.get("dk") in ("var", "parm") and y.get("d") != d:
                                if y["d"] not in pset:
                                    return False
                                found = True
                            elif y["k"] in ("MCall", "Call", "MemberExpr"):
                                return False
                    child = a
                return found
            for site in sites:
                n += 1
                chk.analysed(f)
                res = g.path_through(site, is_barrier=isdel, edge_ok=edge_ok, exit_pred=success)
                ok = res is None
                if not ok and not g.implied_at(site) and all(param_only_guard(c) for c in dels) and \
                        not any(a["k"] == "If" for a in f.ancestors(site)):
                    # created unconditionally, dropped when a parameter says it is not wanted: an optional OUTPUT, not a working column
                    chk.ob("R19.6", "%s: `%s` is an optional output (created unconditionally, dropped on request of a parameter): not judged" % (f.name, name),
                           f.loc(site), True, key="R19.6|%s|%s" % (f.name, name), nontrivial=False)
                    continue
                chk.ob("R19.6", "%s: working column `%s` is deleted on every path to a successful return" % (f.name, name), f.loc(site), ok,
                       detail=None if ok else "the function creates a working column, deletes it under a narrower condition than it creates it, and "
                       "returns success: the data base gains an undocumented variable (case: %s)" % ", ".join(
                           "%s is %s" % (k, v) for k, v in sorted(res[1].items())) if res else None,
                       key="R19.6|%s|%s" % (f.name, name), path=None if ok else g.describe(res[0]))
    chk.floor("R19.6", n, 2)


R199_UNITS = ["src/Core/krige.cpp", "src/Core/simtub.cpp", "src/Core/spill.cpp", "src/Core/seismic.cpp", "src/Db/DbHelper.cpp", "src/Db/DbGrid.cpp",
              "src/Simulation/SimuSpectral.cpp", "src/Simulation/SimuBoolean.cpp", "src/Simulation/CalcSimuRefine.cpp", "src/Variogram/Vario.cpp",
              "src/Basic/Limits.cpp", "src/Anamorphosis/CalcAnamTransform.cpp"]


# R19.9: diagnosed failures that could not be produced through the API (one named function each, with the reason)
R199_ACCEPTED = {
    ("krigsum", "iptr_est"): "`The sum of scaling terms is zero` is a numerical condition on the Lagrange parameters of the universal kriging systems, "
                             "not a test of the arguments; no input producing it was found (with a model without drift the call succeeds)",
}


def r19_9(prog, chk):
    """R19.9 - entry points that are not calculators (old-style functions returning an error code): a column the function has
    created is deleted on every path to a failure return that the function itself diagnoses from its arguments (error message, then
    `return 1`), so that a refused call leaves the data base as it found it.  Not judged: failures propagated from a callee (they may
    be infeasible), and the return taken because the creation of a further column itself failed."""
    n = 0
    for f in sorted(prog.funcs, key=lambda x: (x.file, x.line)):
        if f.cfg is None or not f.ret.startswith("int") or not f.d.get("main"):
            continue
        creates = {}
        for x in f.walk():
            tgt = rhs = None
            if x["k"] == "VarDecl" and x.get("c"):
                tgt, rhs = (x["d"], x["n"]), x["c"][0]
            elif x["k"] == "Assign" and x.get("op") == "=" and x["c"][0] is not None and x["c"][0]["k"] == "DeclRefExpr" and x["c"][0].get("dk") == "var":
                tgt, rhs = (x["c"][0]["d"], x["c"][0]["n"]), x["c"][1]
            if rhs is not None and rhs["k"] == "MCall" and (rhs.get("callee") or "").split("::")[-1] in CREATE_COLS and (rhs.get("cls") or "").startswith("Db"):
                creates.setdefault(tgt, []).append(x)
        if not creates:
            continue
        g = CFG(f)
        created_ids = {d for (d, _) in creates}
        for (d, name), sites in sorted(creates.items(), key=lambda kv: kv[0][1]):
            dels = [c for c in f.calls() if (c.get("callee") or "").split("::")[-1] in DELETE_COLS and
                    any(a is not None and any(y["k"] == "DeclRefExpr" and y.get("d") == d for y in walk(a)) for a in call_args(c))]
            isdel = lambda x: any(x["i"] == c["i"] for c in dels)

            def fail(r):
                v = (r.get("c") or [None])[0]
                if v is None or not (v["k"] == "Int" and v["v"] != 0):
                    return False
                # only failures the function itself diagnoses from its arguments (an error message right before the return) are
                # judged: they are reachable from the API by construction; a failure propagated from a callee may be infeasible
                blk_ = f.parent(r)
                if blk_ is None or blk_["k"] != "Block" or not any(
                        sib is not None and sib["k"] == "Call" and (sib.get("callee") or "") in ("messerr", "messageAbort") for sib in blk_["c"]):
                    return False
                # return taken because another creation failed: `if (id < 0) return 1;`
                par = f.parent(r)
                if par is not None and par["k"] == "Block":
                    par = f.parent(par)
                if par is not None and par["k"] == "If":
                    c = par["c"][0]
                    while c is not None and c["k"] == "Cast":
                        c = c["c"][0]
                    if c is not None and c["k"] == "BinOp" and c.get("op") in ("<", "<=") and c["c"][0] is not None and c["c"][0].get("d") in created_ids:
                        return False
                return True

            def edge_ok(blk, k, s_, d=d):
                c = g.cond(blk["b"])
                if c is None or len(blk["s"]) != 2:
                    return True
                core, pol = peel_cond(c)
                if core is not None and core["k"] == "BinOp" and core.get("op") in (">", ">=", "<") and core["c"][0] is not None and \
                        core["c"][0].get("d") == d and core["c"][1] is not None and core["c"][1]["k"] == "Int" and core["c"][1]["v"] == 0:
                    valid = core["op"] in (">", ">=")
                    return ((k == 0) == pol) == valid
                return True
            for site in sites:
                if g.pos_of(site) is None:
                    continue
                n += 1
                chk.analysed(f)
                w = g.search(g.after(site), is_target=lambda x: x["k"] == "Return" and fail(x), is_barrier=isdel, edge_ok=edge_ok)
                why = R199_ACCEPTED.get((f.name, name))
                ok = w is None or bool(why)
                chk.ob("R19.9", "%s: the column `%s` it creates is deleted on every failure return" % (f.name, name) + (" (accepted: %s)" % why if why and w is not None else ""), f.loc(site), ok,
                       detail=None if ok else "the function returns an error (line %s) after it has created the column and without deleting it: a failed call leaves "
                       "an additional variable in the data base" % (w["hit"]["l"] if w.get("hit") else "?"),
                       key="R19.9|%s|%s" % (f.name, name), path=None if ok else g.describe(w))
    chk.floor("R19.9", n, 15)


def _field_of_this(n):
    while n is not None and n["k"] == "Cast":
        n = n["c"][0]
    if n is not None and n["k"] == "MemberExpr" and n.get("mk") == "field" and (not n.get("c") or n["c"][0] is None or n["c"][0]["k"] == "This"):
        return n["n"]
    return None


def _guards(f, node):
    """[(condition, polarity)] of the If statements enclosing node, and [loop] of the enclosing For statements"""
    conds, loops = [], []
    child = node
    for a in f.ancestors(node):
        if a["k"] == "If":
            c = a["c"]
            # children: cond, then, else (extractor order)
            if len(c) >= 2 and c[1] is child:
                conds.append((c[0], True))
            elif len(c) >= 3 and c[2] is child:
                conds.append((c[0], False))
        elif a["k"] in ("For", "While"):
            loops.append(a)
        child = a
    return conds, loops


def r19_7(prog, chk):
    """the registry of created variables: every list filled by _storeInVariableList is emptied by _cleanVariableDb for the same
    status, on the data base it was registered for, under no other condition than the status and the list itself"""
    store = prog.fn("ACalcDbToDb::_storeInVariableList")
    clean = prog.fn("ACalcDbToDb::_cleanVariableDb")
    chk.analysed(store)
    chk.analysed(clean)
    table = {}
    for c in store.calls():
        if (c.get("callee") or "").endswith("::push_back"):
            lst = _field_of_this(call_obj(c))
            if lst is None:
                continue
            conds, _ = _guards(store, c)
            db = perm = None
            for cond, pol in conds:
                t = show(cond)
                if t == "whichDb == 1":
                    db = "_dbin" if pol else "_dbout"
                elif t == "status == 1":
                    perm = pol
            table[lst] = (db, perm)
    chk.floor("R19.7-lists", len(table), 4)
    n = 0
    for lst, (db, perm) in sorted(table.items()):
        dels = []
        for c in clean.calls():
            if (c.get("callee") or "").split("::")[-1] in DELETE_COLS and any(_field_of_this(y) == lst for a in call_args(c) for y in walk(a)):
                dels.append(c)
        n += 1
        ok = len(dels) >= 1
        detail = None
        where = clean.loc()
        if not ok:
            detail = "no deletion of the columns registered in %s: they stay in the data base after %s" % (lst, "a failure" if perm else "the run")
        for c in dels:
            where = clean.loc(c)
            o = call_obj(c)
            if _field_of_this(o) != db:
                ok, detail = False, "the columns registered for %s are deleted from %s" % (db, show(o))
            conds, loops = _guards(clean, c)
            loopvars = {x["d"] for l in loops for x in walk(l["c"][0]) if x is not None and x["k"] == "VarDecl"} if loops else set()
            for cond, pol in conds:
                t = show(cond)
                if t == "status == 1":
                    if pol != perm:
                        ok, detail = False, "%s is emptied for the wrong status" % lst
                    continue
                extra = []
                for y in walk(cond):
                    if y["k"] == "MemberExpr" and y.get("mk") == "field" and _field_of_this(y) != lst:
                        extra.append(y["n"])
                    if y["k"] == "DeclRefExpr" and y.get("dk") in ("var", "parm") and y.get("d") not in loopvars and y["n"] != "status":
                        extra.append(y["n"])
                if extra:
                    ok, detail = False, "the deletion of the columns of %s also depends on %s (`%s`): registered columns survive when it does not hold" % (
                        lst, ", ".join(sorted(set(extra))), t)
            for l in loops:
                lc = l["c"][1]
                bad = [y["n"] for y in walk(lc) if y["k"] == "MemberExpr" and y.get("mk") == "field" and _field_of_this(y) != lst]
                lit = [y for y in walk(lc) if y["k"] == "Int"]
                if bad or lit or not any(_field_of_this(y) == lst for y in walk(lc)):
                    ok, detail = False, "the deletion loop over %s is bounded by `%s`, not by the size of the list" % (lst, show(lc))
                init = l["c"][0]
                if init is not None and not any(y["k"] == "Int" and y["v"] == 0 for y in walk(init)):
                    ok, detail = False, "the deletion loop over %s does not start at 0" % lst
        chk.ob("R19.7", "_cleanVariableDb deletes every column registered in %s (%s, %s)" % (lst, db, "status 1" if perm else "status 2"),
               where, ok, detail=detail, key="R19.7|%s" % lst)
        # ... and reaches that deletion on EVERY path (no early exit): from the entry, with the status of the list and the list not
        # empty, no path gets to the exit without passing the deletion
        if dels:
            g = CFG(clean)
            delids = {c["i"] for c in dels}
            loops = {l["i"] for l in clean.walk() if l["k"] == "For" and any(y["i"] in delids for y in walk(l))}

            def eo(blk, k, s_, perm=perm, lst=lst):
                if blk.get("t") == "ForStmt" and blk.get("ts") in loops and k == 1:
                    return False                       # the loop over a non-empty list is entered
                cnd = g.cond(blk["b"])
                if cnd is None or len(blk["s"]) != 2:
                    return True
                core, pol = peel_cond(cnd)
                t = show(core)
                truth = (k == 0) == pol
                if t == "status == 1":
                    return truth == bool(perm)
                if core is not None and core["k"] == "MCall" and (core.get("callee") or "").split("::")[-1] == "empty" and _field_of_this(call_obj(core)) == lst:
                    return truth is False
                return True
            w = g.search(g.entry_pos(), to_exit=True, is_barrier=lambda y: y["i"] in delids, edge_ok=eo)
            n += 1
            chk.ob("R19.7", "_cleanVariableDb reaches the deletion of %s on every path" % lst, clean.loc(), w is None,
                   detail=None if w is None else "the function can return before it deletes the columns registered in %s (for a reason that is neither the status "
                   "nor the list): a failed run leaves its variables in the data base" % lst,
                   key="R19.7|%s|reached" % lst, path=None if w is None else g.describe(w))
    chk.floor("R19.7", n, 4)


def r19_8(prog, chk, classes):
    """'rank or -1' members of the calculators: a member initialised to -1 in the constructor encodes 'not set'; rank 0 is a
    legal value, so the member is tested with `>= 0` / `< 0` (or against -1), never with `> 0` / `<= 0`"""
    n = 0
    for K in sorted(classes):
        sent = set()
        for f in prog.funcs:
            if f.cls != K or f.kind != "ctor":
                continue
            for init in f.d.get("inits") or []:
                v = init.get("init")
                while v is not None and v["k"] == "Cast":
                    v = v["c"][0]
                if v is not None and init.get("field") and v["k"] == "Int" and v["v"] == -1:
                    sent.add(init["field"])
                if v is not None and init.get("field") and v["k"] == "UnOp" and v.get("op") == "-" and v["c"][0] is not None and v["c"][0]["k"] == "Int" and v["c"][0]["v"] == 1:
                    sent.add(init["field"])
        # only the members that select the mode of the run in a stage function (status of the created variables, outputs)
        staged = set()
        for f in prog.funcs:
            if f.cls == K and f.body is not None and f.short in ("_check", "_preprocess", "_postprocess", "_rollback"):
                for x in f.walk():
                    if x["k"] == "BinOp" and _field_of_this(x["c"][0]) in sent:
                        staged.add(_field_of_this(x["c"][0]))
        sent &= staged
        if not sent:
            continue
        for f in sorted(prog.funcs, key=lambda x: (x.file, x.line)):
            if f.cls != K or f.body is None:
                continue
            for x in f.walk():
                if x["k"] != "BinOp" or x.get("op") not in (">", ">=", "<", "<=") or x["c"][1] is None or x["c"][1]["k"] != "Int" or x["c"][1]["v"] != 0:
                    continue
                fld = _field_of_this(x["c"][0])
                if fld not in sent:
                    continue
                n += 1
                chk.analysed(f)
                ok = x["op"] in (">=", "<")
                chk.ob("R19.8", "%s: `%s` treats rank 0 as a set value of %s::%s" % (f.name, show(x), K, fld), f.loc(x), ok,
                       detail=None if ok else "%s is -1 when not set and a rank (0 included) otherwise: `%s` treats rank 0 as 'not set', so the run "
                       "for the first sample takes the other mode (different status of the created variables / different outputs)" % (fld, show(x)),
                       key="R19.8|%s|%s|%s" % (f.name, fld, x["op"]))
    chk.floor("R19.8", n, 2)


def main(tier):
    chk = Check("C19", tier,
                "Static roll-back discipline of the ACalculator hierarchy: stage failures reach the roll-back, every column "
                "created on a data base is registered, every registered status is cleaned by the class's _rollback, role changes "
                "restored on success are restored on failure, failing branches of stage functions report failure. Necessary "
                "conditions of 'fails and leaves the data bases untouched'; does NOT decide that pre-existing values are "
                "unchanged nor the old-style (non-calculator) functions.")
    units = [os.path.join(REPO, u) for u in UNITS + R196_UNITS + [u for u in R199_UNITS if u not in UNITS + R196_UNITS]]
    if tier == "thorough":
        units = facts.all_units()
    d = extract(units, "C19-" + tier)
    prog = Program().load_dir(d)
    dh, excluded = facts.extract_headers("C19h-" + tier)
    prog.load_dir(dh)
    if excluded:
        chk.notes.append("headers left out of the inline-function unit (cannot be combined): " + ", ".join(excluded))
    chk.units = list(prog.units)
    classes = calc_classes(prog)
    if len(classes) < 20:
        raise facts.AnalysisBroken("only %d ACalculator subclasses found" % len(classes))
    r19_1(prog, chk)
    r19_2(prog, chk, set(classes))
    r19_3_4(prog, chk, classes)
    r19_5(prog, chk, set(classes))
    r19_6(prog, chk)
    r19_7(prog, chk)
    r19_8(prog, chk, set(classes))
    r19_9(prog, chk)
    # R19.11: a variable is named in the data base it was created in.  `M = _addVariableDb(W, ..)` creates the column in data base W
    # (1 = input, 2 = output); `_renameVariable(W', .., M, ..)` must designate the same data base (under the same option guard when
    # the class creates M in different data bases for different options): naming the identifier in the other data base renames and
    # re-roles an unrelated column of that data base and leaves the result unnamed
    def _guard(f, node):
        for a in f.ancestors(node):
            if a["k"] == "If" and a["c"][-3] is not None:
                return show(a["c"][-3])
        return ""
    def _lit(e):
        while e is not None and e["k"] == "Cast":
            e = e["c"][0]
        return e.get("v") if e is not None and e["k"] == "Int" else None
    created = {}
    for f in prog.funcs:
        if f.body is None or not f.cls:
            continue
        for x in f.walk():
            if x["k"] == "Assign" and x.get("op") == "=" and x["c"][0] is not None and x["c"][0]["k"] == "MemberExpr" and x["c"][1] is not None:
                for y in walk(x["c"][1]):
                    if y["k"] == "MCall" and (y.get("callee") or "").endswith("::_addVariableDb"):
                        w = _lit(call_args(y)[0]) if call_args(y) else None
                        if w is not None:
                            created.setdefault((f.cls, x["c"][0]["n"]), []).append((w, _guard(f, x)))
    n11 = 0
    for f in sorted(prog.funcs, key=lambda x: (x.file, x.line)):
        if f.body is None or not f.cls:
            continue
        for c in f.calls():
            if not (c.get("callee") or "").endswith("::_renameVariable"):
                continue
            a = call_args(c)
            if len(a) < 5 or a[4] is None:
                continue
            w2 = _lit(a[0])
            m = a[4]
            while m is not None and m["k"] == "Cast":
                m = m["c"][0]
            if w2 is None or m is None or m["k"] != "MemberExpr":
                continue
            cands = []
            for K in [f.cls] + prog.bases(f.cls):
                cands += created.get((K, m["n"]), [])
            if not cands:
                continue
            g2 = _guard(f, c)
            same_guard = [w for w, g in cands if g == g2]
            ws = set(same_guard) if same_guard else ({w for w, _ in cands} if len({w for w, _ in cands}) == 1 else set())
            if not ws:
                continue
            n11 += 1
            ok = w2 in ws
            chk.analysed(f)
            chk.ob("R19.11", "%s: `%s` is named in the data base it was created in" % (f.name, m["n"]), f.loc(c), ok,
                   detail=None if ok else "`%s` is created by _addVariableDb(%s, ..) %sand named by _renameVariable(%s, ..): the identifier is looked up in the other "
                   "data base - an unrelated column of that data base is renamed and given the role, the result keeps no name" % (
                       m["n"], "/".join(str(w) for w in sorted(ws)), ("under `%s` " % g2) if g2 else "", w2),
                   key="R19.11|%s|%s|%s" % (f.name, m["n"], g2[:30]))
    chk.floor("R19.11", n11, 8)
    # R19.12: an option a caller can set has an effect.  A data member filled from a constructor / setter parameter and that no
    # getter exposes must be READ by some method other than the copy operations and the printout: otherwise the documented switch
    # (NamingConvention's `flag_locator` = "do not give the results a role") is silently ignored and the calculation changes roles
    # the caller asked it to leave alone
    n12 = 0
    for K in sorted(prog.classes):
        if K not in ("NamingConvention",) and "ACalcDbToDb" not in prog.bases(K) and "ACalculator" not in prog.bases(K):
            continue
        meths = [f for f in prog.funcs if f.cls == K and f.body is not None]
        if not meths:
            continue
        # every declared method must have been analysed (a class whose source file is not among the units would look like it reads nothing)
        with_body = {f.short for f in meths}
        declared = {m_["n"] for m_ in prog.classes[K].get("methods", []) if not m_.get("pure") and not m_.get("defaulted") and not m_.get("deleted")}
        if any(nm not in with_body for nm in declared if not nm.startswith(("operator", "~")) and nm != K):
            continue
        fields = [fd["n"] for fd in prog.classes[K].get("fields", []) if not fd.get("static") and fd["t"].replace("const ", "").strip() in ("bool", "int", "double")
                  and "verbose" not in fd["n"].lower()]          # verbosity switches change no result
        for fl in fields:
            setters = [f for f in meths if f.kind in ("ctor", "method") and any(
                (i_.get("field") == fl and i_.get("init") is not None and any(y["k"] == "DeclRefExpr" and y.get("dk") == "parm" for y in walk(i_["init"])))
                for i_ in (f.d.get("inits") or [])) and len(f.params) and not (len(f.params) == 1 and K in f.params[0]["t"])]
            setters += [f for f in meths if f.kind == "method" and any(
                x["k"] == "Assign" and x["c"][0] is not None and x["c"][0]["k"] == "MemberExpr" and x["c"][0]["n"] == fl and x["c"][1] is not None and
                x["c"][1]["k"] == "DeclRefExpr" and x["c"][1].get("dk") == "parm" for x in f.walk()) and not f.short.startswith("operator")]
            if not setters:
                continue
            getter = any(f.kind == "method" and len(list(f.walk())) < 12 and any(
                r["k"] == "Return" and r.get("c") and r["c"][0] is not None and any(y["k"] == "MemberExpr" and y["n"] == fl for y in walk(r["c"][0])) for r in f.walk())
                for f in meths)
            if getter:
                continue
            readers = []
            for f in meths:
                if f.kind == "ctor" or f.short.startswith("operator") or f.short in ("toString", "display", "_recopy", "clone"):
                    continue
                written = {x["c"][0]["i"] for x in f.walk() if x["k"] == "Assign" and x["c"][0] is not None and x["c"][0]["k"] == "MemberExpr"}
                if any(x["k"] == "MemberExpr" and x["n"] == fl and x["i"] not in written for x in f.walk()):
                    readers.append(f)
            n12 += 1
            ok = bool(readers)
            chk.ob("R19.12", "%s::%s (set by %s) is consulted by some method" % (K, fl, setters[0].short), setters[0].loc(), ok,
                   detail=None if ok else "the option is stored, copied and printed but no method reads it: what the caller asked through it is ignored",
                   key="R19.12|%s::%s" % (K, fl))
    chk.floor("R19.12", n12, 4)
    # R19.13: a run starts with empty registries.  The variables a run creates are recorded in `_listVariablePerm*` so that a FAILURE of
    # that run can delete them; the registries must be emptied when a new run starts (in _check / _preprocess of the class that owns
    # them), otherwise a calculator object that is run again and fails deletes the results of its earlier, successful run
    n13 = 0
    for K in sorted(prog.classes):
        perm = [fd["n"] for fd in prog.classes[K].get("fields", []) if fd["n"].startswith("_listVariablePerm")]
        if not perm:
            continue
        used = any(c.get("callee") == K + "::_addVariableDb" for f in prog.funcs if f.body is not None and f.cls != K for c in f.calls())
        if not used:
            chk.notes.append("R19.13: %s::_addVariableDb is never called by a calculator of the analysed units: its registries stay empty, not judged" % K)
            continue
        starts = [f for f in prog.funcs if f.cls == K and f.body is not None and f.short in ("_check", "_preprocess", "run")]
        for fl in perm:
            n13 += 1
            ok = any(x["k"] == "MCall" and (x.get("callee") or "").split("::")[-1] == "clear" and call_obj(x) is not None and
                     call_obj(x)["k"] == "MemberExpr" and call_obj(x)["n"] == fl for f in starts for x in f.walk())
            chk.ob("R19.13", "%s::%s is emptied when a run starts" % (K, fl), starts[0].loc() if starts else K, ok,
                   detail=None if ok else "the registry is only emptied by the roll-back: after a successful run it still lists the results; if the same object is run "
                   "again and fails, the roll-back deletes the results of the earlier success", key="R19.13|%s::%s" % (K, fl))
    chk.floor("R19.13", n13, 2)
    # R19.14: as many columns are created as are named.  `M = _addVariableDb(W, st, loc, idx, NUMBER)` allocates NUMBER columns from the
    # identifier M; `_renameVariable(W, names, loc, NVAR, M, qualifier, COUNT)` names NVAR x COUNT of them: a class that allocates ONE
    # column and names `getNbSimu()` of them writes the other simulations into columns that do not exist (simfft with nbsimu > 1)
    made = {}
    for f in prog.funcs:
        if f.body is None or not f.cls:
            continue
        for x in f.walk():
            if x["k"] == "Assign" and x.get("op") == "=" and x["c"][0] is not None and x["c"][0]["k"] == "MemberExpr" and x["c"][1] is not None:
                for y in walk(x["c"][1]):
                    if y["k"] == "MCall" and (y.get("callee") or "").endswith("::_addVariableDb"):
                        a_ = call_args(y)
                        num = show(a_[4]) if len(a_) > 4 and a_[4] is not None and a_[4]["k"] != "DefaultArg" else "1"
                        made.setdefault((f.cls, x["c"][0]["n"]), []).append((num, _guard(f, x)))
    n14 = 0
    for f in sorted(prog.funcs, key=lambda x: (x.file, x.line)):
        if f.body is None or not f.cls:
            continue
        for c in f.calls():
            if not (c.get("callee") or "").endswith("::_renameVariable"):
                continue
            a = call_args(c)
            if len(a) < 7 or a[4] is None:
                continue
            m = a[4]
            while m is not None and m["k"] == "Cast":
                m = m["c"][0]
            if m is None or m["k"] != "MemberExpr":
                continue
            cands = []
            for K in [f.cls] + prog.bases(f.cls):
                cands += made.get((K, m["n"]), [])
            if not cands:
                continue
            g2 = _guard(f, c)
            nums = [n_ for n_, g in cands if g == g2] or [n_ for n_, g in cands]
            nvar, count = show(a[3]), show(a[6])
            total_one = nvar == "1" and count == "1"
            n14 += 1
            # ... and the class does write several columns from that identifier (`M + isimu` handed to a writer)
            K_meths = [g_ for g_ in prog.funcs if g_.body is not None and g_.cls in [f.cls] + prog.bases(f.cls)]
            several = any(y["k"] == "BinOp" and y.get("op") == "+" and any(z["k"] == "MemberExpr" and z["n"] == m["n"] for z in walk(y)) and
                          any(z["k"] == "DeclRefExpr" for z in walk(y)) for g_ in K_meths for y in g_.walk())
            bad = all(n_ == "1" for n_ in nums) and not total_one and several
            chk.analysed(f)
            chk.ob("R19.14", "%s: as many columns are created for `%s` as are named" % (f.name, m["n"]), f.loc(c), not bad,
                   detail=None if not bad else "`%s` is allocated with 1 column and _renameVariable names %s x %s of them from that identifier: the results of the "
                   "other simulations / variables are written into columns that were never created" % (m["n"], nvar, count),
                   key="R19.14|%s|%s" % (f.name, m["n"]))
    chk.floor("R19.14", n14, 8)
    # R19.15: identifiers handed to a calculator are validated before anything is created.  A calculator that keeps a list of variable
    # identifiers (`VectorInt _iuids`, filled by a setter from names the caller typed) must test them in `_check` (isUIDDefined /
    # getColIdxByUID / a comparison with 0): `migrate(dbin, dbout, "nosuchname")` created a variable from the identifier -1 and
    # reported success.
    n15 = 0
    for K in sorted(prog.classes):
        flds = [fl["n"] for fl in prog.classes[K].get("fields", []) if fl["t"].replace(" ", "") in ("VectorInt", "VectorNumT<int>") and "iuid" in fl["n"].lower()]
        chks = [f for f in prog.fns(K + "::_check") if f.body is not None]
        if not flds or not chks:
            continue
        for fl in flds:
            n15 += 1
            f = chks[0]
            ok = False
            for x in f.walk():
                if x["k"] in ("MCall", "Call") and (x.get("callee") or "").split("::")[-1] in ("isUIDDefined", "getColIdxByUID", "isUIDValid", "getColIdxsByUID") and \
                        any(z["k"] == "MemberExpr" and z.get("n") == fl for a in call_args(x) if a is not None for z in walk(a)):
                    ok = True
                if x["k"] == "BinOp" and x.get("op") in ("<", ">=", "<=", ">") and any(z["k"] == "MemberExpr" and z.get("n") == fl for z in walk(x["c"][0])) and \
                        x["c"][1] is not None and x["c"][1]["k"] == "Int":
                    ok = True
            why = {("CalcKrigingFactors", "_iuidFactors"): "filled by the only entry point, krigingFactors(), with getUIDsByLocator(ELoc::Z): identifiers "
                   "the data base has just reported, not names typed by the caller"}.get((K, fl))
            ok = ok or why is not None
            chk.analysed(f)
            chk.ob("R19.15", "%s::_check validates the identifiers of `%s`" % (K, fl), f.loc(), ok,
                   detail=None if ok else "`%s` is only tested for emptiness: an identifier the data base does not hold (-1 for an unknown name) goes through, a "
                   "variable is created from it and the calculation reports success" % fl, key="R19.15|%s|%s" % (K, fl))
    chk.floor("R19.15", n15, 1)
    # R19.10 (rule K): the columns a calculation memorises, reads, writes and deletes are designated by their persistent identifiers,
    # never by a column index (uidkinds.py): after an earlier deletion the calculation would work on - and restore the roles of -
    # other columns than its own
    import uidkinds
    uidkinds.rule(prog, chk, "R19.10", ("src/",), 40)
    return chk.finish()
