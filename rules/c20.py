"""C20 - point-in-polygon decisions and polygon selections (DESIGN.md section C20).
 (a) effect clause: every branch of the ray-casting loop of PolyElem::inside compares two coordinates of one axis, an edge
     increment with 0, or the edge abscissa at the query ordinate with the query abscissa (identified by polynomial identity)
 (b) exhaustive abstract evaluation: the per-edge transfer function of the loop body, evaluated on a representative of every
     order type, equals a half-open crossing rule for every point off the closed edge; 'set to 1' only on the edge
 (c) set rules: no negative answer from inside the search loops of Polygons::inside; nested = parity, union = first hit
 (d) db_polygon stores, for every sample, the result of inside() on that sample's coordinates
"""
import itertools
import os
from fractions import Fraction

import facts
from facts import REPO, Program, extract, show, call_obj, call_args, walk
from e1_paths import CFG, peel_cond
from e6_abseval import Interp, Poly, Ratio, Unsupported, Continue, Break, Return
from report import Check

UNITS = ["src/Polygon/PolyElem.cpp", "src/Polygon/Polygons.cpp"]


def find_loop(f):
    loops = [n for n in f.walk() if n["k"] == "For"]
    if len(loops) != 1:
        raise facts.AnalysisBroken("PolyElem::inside: expected one edge loop, found %d" % len(loops))
    return loops[0]


def setup(f):
    """symbol roles of the locals of PolyElem::inside"""
    coor = f.params[0]["d"]
    roles = {}
    inter = None
    for n in f.walk():
        if n["k"] == "VarDecl" and n.get("c"):
            i = n["c"][0]
            if i["k"] == "OpCall" and i.get("op") == "[]" and i["c"][0] is not None and i["c"][0].get("d") == coor and i["c"][1]["k"] == "Int":
                roles[n["d"]] = ("xx", "yy")[i["c"][1]["v"]] if i["c"][1]["v"] in (0, 1) else None
            if i["k"] == "Int" and i["v"] == 0 and "int" in n["t"] and n["n"] not in ("j",):
                inter = n["d"]
    if sorted(v for v in roles.values() if v) != ["xx", "yy"] or inter is None:
        raise facts.AnalysisBroken("PolyElem::inside: query coordinates / crossing counter not identified")
    return roles, inter


def make_hook(loopvar, vals):
    def hook(n, it):
        short = (n.get("callee") or "").split("::")[-1]
        a = call_args(n)
        if n["k"] == "MCall" and short in ("getX", "getY") and len(a) == 1:
            e = a[0]
            which = None
            if e["k"] == "DeclRefExpr" and e.get("d") == loopvar:
                which = 0
            elif e["k"] == "BinOp" and e.get("op") == "+" and e["c"][0].get("d") == loopvar and e["c"][1]["k"] == "Int" and e["c"][1]["v"] == 1:
                which = 1
            if which is not None:
                return vals[("X" if short == "getX" else "Y") + str(which)]
        raise Unsupported("call %s in the edge loop" % n.get("callee"))
    return hook


def run_edge(f, loop, roles, inter, x0, y0, x1, y1, xx, yy):
    """(outcome, delta): outcome 'count' with delta increments, or 'set1'"""
    body = loop["c"][3]
    loopvar = loop["c"][0]["c"][0]["d"]
    env = {inter: Fraction(0), loopvar: Fraction(0)}
    for d, r in roles.items():
        env[d] = Fraction(xx) if r == "xx" else Fraction(yy)
    it = Interp(env, call_hook=make_hook(loopvar, {"X0": Fraction(x0), "X1": Fraction(x1), "Y0": Fraction(y0), "Y1": Fraction(y1)}))
    try:
        it.run(body)
    except Continue:
        pass
    set1 = any(t[0] == "assign" and t[1]["c"][0].get("d") == inter for t in it.trace)
    return ("set1" if set1 else "count"), int(it.env[inter])


def on_closed_segment(x0, y0, x1, y1, xx, yy):
    cross = (x1 - x0) * (yy - y0) - (y1 - y0) * (xx - x0)
    if cross != 0:
        return False
    return min(x0, x1) <= xx <= max(x0, x1) and min(y0, y1) <= yy <= max(y0, y1)


def crossing(x0, y0, x1, y1, xx, yy, ray, lower_inclusive):
    """half-open crossing rule for a point off the edge"""
    if y0 == y1:
        return 0
    lo, hi = min(y0, y1), max(y0, y1)
    inside = (lo <= yy < hi) if lower_inclusive else (lo < yy <= hi)
    if not inside:
        return 0
    xint = Fraction(x0) + Fraction(yy - y0) * Fraction(x1 - x0) / Fraction(y1 - y0)
    return 1 if ((xint > xx) if ray > 0 else (xint < xx)) else 0


def signature(x0, y0, x1, y1, xx, yy):
    def order(a, b, c):
        return ((a > b) - (a < b), (a > c) - (a < c), (b > c) - (b < c))
    cross = (x1 - x0) * (yy - y0) - (y1 - y0) * (xx - x0)
    return order(x0, x1, xx), order(y0, y1, yy), (cross > 0) - (cross < 0)


def effect_clause(f, loop, roles, chk):
    """every comparison in the loop body is of an allowed kind; returns the number of atoms"""
    body = loop["c"][3]
    loopvar = loop["c"][0]["c"][0]["d"]
    cls = {}
    for d, r in roles.items():
        cls[d] = "X" if r == "xx" else "Y"
    defs = {}
    for n in walk(body):
        if n["k"] == "Assign" and n.get("op") == "=" and n["c"][0]["k"] == "DeclRefExpr":
            defs.setdefault(n["c"][0]["d"], []).append(n["c"][1])
    names = {}
    for n in f.walk():
        if n["k"] in ("VarDecl",):
            names[n["d"]] = n["n"]
    # symbolic environment
    sym = {"X0": Ratio(Poly.var("x0")), "X1": Ratio(Poly.var("x1")), "Y0": Ratio(Poly.var("y0")), "Y1": Ratio(Poly.var("y1"))}
    senv = {}
    for d, r in roles.items():
        senv[d] = Ratio(Poly.var(r))
    it = Interp(senv, call_hook=make_hook(loopvar, sym), symbolic=True)
    x0, x1, y0, y1, xx, yy = [Poly.var(v) for v in ("x0", "x1", "y0", "y1", "xx", "yy")]
    kinds = {}
    order = sorted(defs, key=lambda d: min(x["i"] for x in defs[d]))
    for d in order:
        if len(defs[d]) != 1:
            continue          # the counter
        val = it.ev(defs[d][0])
        it.env[d] = val
        if val.same(Ratio(x0)) or val.same(Ratio(x1)):
            kinds[d] = "X"
        elif val.same(Ratio(y0)) or val.same(Ratio(y1)):
            kinds[d] = "Y"
        elif val.same(Ratio(x1 - x0)):
            kinds[d] = "DX"
        elif val.same(Ratio(y1 - y0)):
            kinds[d] = "DY"
        elif val.same(Ratio(x0 * (y1 - y0) + (yy - y0) * (x1 - x0), y1 - y0)):
            kinds[d] = "XINTER"
        else:
            kinds[d] = "OTHER:" + repr(val.num)
    kinds.update(cls)
    n_atoms = 0
    bad = []
    for n in walk(body):
        if n["k"] == "BinOp" and n.get("op") in ("<", "<=", ">", ">=", "==", "!="):
            n_atoms += 1
            a, b = n["c"]

            def kind(e):
                if e["k"] == "DeclRefExpr":
                    return kinds.get(e["d"], "?")
                if e["k"] == "Int" and e["v"] == 0:
                    return "ZERO"
                return "?"
            ka, kb = kind(a), kind(b)
            ok = (ka == kb and ka in ("X", "Y")) or {ka, kb} in ({"DX", "ZERO"}, {"DY", "ZERO"}, {"XINTER", "X"})
            if {ka, kb} == {"XINTER", "X"}:
                # the abscissa must be compared with the QUERY abscissa
                other = a if ka == "X" else b
                ok = roles.get(other["d"]) == "xx"
            if not ok:
                bad.append("%s (%s vs %s)" % (show(n), ka, kb))
    chk.ob("C20a", "PolyElem::inside: the edge loop touches coordinates only through same-axis comparisons, increments vs 0 and the "
           "edge abscissa vs the query abscissa (%d comparison atoms)" % n_atoms, f.loc(loop), not bad,
           detail=None if not bad else "a branch of the ray-casting loop is outside the fragment that licenses the order-type abstraction: "
           + "; ".join(bad), key="C20a|PolyElem::inside|effect-clause")
    has_xinter = "XINTER" in kinds.values()
    chk.ob("C20a", "PolyElem::inside: the interpolated abscissa is the abscissa of the edge line at the query ordinate (polynomial identity)",
           f.loc(loop), has_xinter,
           detail=None if has_xinter else "no local of the loop equals x0 + (yy - y0) (x1 - x0) / (y1 - y0)",
           key="C20a|PolyElem::inside|xinter-identity")
    return n_atoms, not bad and has_xinter


def rule_ab(prog, chk, lattice):
    f = prog.fn("PolyElem::inside")
    chk.analysed(f)
    loop = find_loop(f)
    roles, inter = setup(f)
    try:
        natoms, sound = effect_clause(f, loop, roles, chk)
    except Unsupported as e:
        raise facts.AnalysisBroken("PolyElem::inside is outside the fragment of the abstract evaluator: %s" % e)
    if not sound:
        return
    # the function returns the parity of the counter
    rets = [n for n in f.walk() if n["k"] == "Return"]
    par = len(rets) == 1 and "% 2" in show(rets[0]) and "!= 0" in show(rets[0])
    chk.ob("C20b", "PolyElem::inside returns the parity of the crossing counter", f.loc(rets[0]) if rets else f.loc(), par,
           key="C20b|PolyElem::inside|parity")
    R = range(lattice)
    conv_ok = {(ray, lo): True for ray in (1, -1) for lo in (True, False)}
    first_bad = {}
    n_off = n_on = 0
    set1_off = []
    sigs = {}
    try:
        for x0, y0, x1, y1, xx, yy in itertools.product(R, R, R, R, R, R):
            if x0 == x1 and y0 == y1:
                continue
            out, delta = run_edge(f, loop, roles, inter, x0, y0, x1, y1, xx, yy)
            sig = signature(x0, y0, x1, y1, xx, yy)
            sigs.setdefault(sig, (out, delta % 2))
            if sigs[sig] != (out, delta % 2):
                raise facts.AnalysisBroken("the loop body is not a function of the order type: %s" % (sig,))
            if on_closed_segment(x0, y0, x1, y1, xx, yy):
                n_on += 1
                continue
            n_off += 1
            if out == "set1":
                set1_off.append((x0, y0, x1, y1, xx, yy))
                continue
            for (ray, lo) in conv_ok:
                if conv_ok[(ray, lo)] and delta % 2 != crossing(x0, y0, x1, y1, xx, yy, ray, lo):
                    conv_ok[(ray, lo)] = False
                    first_bad[(ray, lo)] = (x0, y0, x1, y1, xx, yy, delta)
    except Unsupported as e:
        raise facts.AnalysisBroken("PolyElem::inside is outside the fragment of the abstract evaluator: %s" % e)
    good = [k for k, v in conv_ok.items() if v]
    chk.extra["C20_order_types"] = len(sigs)
    chk.extra["C20_lattice_cases_off_edge"] = n_off
    chk.extra["C20_lattice_cases_on_edge"] = n_on
    chk.extra["C20_conventions_matched"] = [{"ray": "+x" if r > 0 else "-x", "level_vertex_counts_as": "above" if lo else "below"} for r, lo in good]
    # one obligation per order type (off-edge): the transfer function equals the rule
    # one obligation per order type realised off the closed edge, against the matched convention (or the closest one)
    conv = good[0] if good else max(conv_ok, key=lambda k: 0)
    per_sig = {}
    for x0, y0, x1, y1, xx, yy in itertools.product(R, R, R, R, R, R):
        if (x0 == x1 and y0 == y1) or on_closed_segment(x0, y0, x1, y1, xx, yy):
            continue
        sig = signature(x0, y0, x1, y1, xx, yy)
        if sig in per_sig:
            continue
        out, par2 = sigs[sig]
        want = crossing(x0, y0, x1, y1, xx, yy, conv[0], conv[1])
        per_sig[sig] = (out == "count" and par2 == want, (x0, y0, x1, y1, xx, yy), out, par2, want)
    for sig, (ok, rep, out, par2, want) in sorted(per_sig.items()):
        chk.ob("C20b-ordertype", "order type x%s y%s side %+d (representative edge (%d,%d)-(%d,%d), point (%d,%d))" % (
                   sig[0], sig[1], sig[2], rep[0], rep[1], rep[2], rep[3], rep[4], rep[5]), f.loc(loop), ok,
               detail=None if ok else "the loop body gives %s%s where the half-open rule (ray %s, level vertex counts as %s) gives %d" % (
                   out, "" if out == "set1" else " parity %d" % par2, "+x" if conv[0] > 0 else "-x", "above" if conv[1] else "below", want),
               key="C20b|PolyElem::inside|ordertype %s %s %d" % sig)
    chk.ob("C20b", "PolyElem::inside: per-edge transfer function equals ONE half-open crossing rule on all %d off-edge cases "
           "(%d order types)" % (n_off, len(sigs)), f.loc(loop), bool(good),
           detail=None if good else "no half-open convention matches: e.g. edge (%s,%s)-(%s,%s), point (%s,%s): the loop adds %s" %
           tuple(list(first_bad.values())[0]) if first_bad else None,
           key="C20b|PolyElem::inside|half-open-rule")
    chk.ob("C20b", "PolyElem::inside: the 'on the boundary' outcome occurs only for points on the closed edge", f.loc(loop), not set1_off,
           detail=None if not set1_off else "edge (%d,%d)-(%d,%d), point (%d,%d) is off the edge but the loop forces the counter to 1" % set1_off[0],
           key="C20b|PolyElem::inside|set1-only-on-edge")
    return len(sigs), n_off


def rule_c(prog, chk):
    f = prog.fn("Polygons::inside")
    chk.analysed(f)
    loops = [n for n in f.walk() if n["k"] == "For"]
    chk.floor("C20c-loops", len(loops), 2)
    for i, loop in enumerate(loops):
        neg = [n for n in walk(loop) if n["k"] == "Return" and n.get("c") and n["c"][0] is not None and n["c"][0]["k"] == "Bool" and n["c"][0]["v"] is False]
        chk.ob("C20c", "Polygons::inside: search loop #%d never answers 'outside' before every element was examined" % (i + 1), f.loc(loop),
               not neg,
               detail=None if not neg else "`return false` inside the loop over the polygon elements: an element whose vertical limits exclude "
               "the point ends the search although a later element may contain it", key="C20c|Polygons::inside|loop%d-no-negative-return" % (i + 1),
               path=None if not neg else ["line %d: %s" % (neg[0]["l"], show(neg[0]))])
        closes = any(n["k"] == "MCall" and (n.get("callee") or "").endswith("::getClosedPolyElem") for n in walk(loop))
        chk.ob("C20c", "Polygons::inside: loop #%d tests the CLOSED element" % (i + 1), f.loc(loop), closes,
               key="C20c|Polygons::inside|loop%d-closed" % (i + 1))
    # nested: parity after the loop; union: true on first hit
    txt = " ".join(show([x for x in n["c"][:-2] if x is not None][-1]) for n in f.walk() if n["k"] == "If")
    chk.ob("C20c", "Polygons::inside: nested mode answers the parity of the number of containing elements", f.loc(),
           "number % 2 != 0" in txt, key="C20c|Polygons::inside|nested-parity")


def rule_d(prog, chk):
    f = prog.fn("db_polygon")
    chk.analysed(f)
    stores = [n for n in f.calls() if (n.get("callee") or "").endswith("Db::setArray")]
    chk.floor("C20d-stores", len(stores), 1)
    st = stores[0]
    a = call_args(st)
    val = a[2]
    while val is not None and val["k"] == "Cast":
        val = val["c"][0]
    ok_val = val is not None and val["k"] == "DeclRefExpr"
    sel = val["d"] if ok_val else None
    srcs_ok = ok_val
    if ok_val:
        for n in f.walk():
            rhs = None
            if n["k"] == "VarDecl" and n.get("d") == sel and n.get("c"):
                rhs = n["c"][0]
            elif n["k"] == "Assign" and n["c"][0].get("d") == sel:
                rhs = n["c"][1]
            if rhs is None:
                continue
            # allowed: 0, inside(coor, ..), sel || inside(coor, ..)
            atoms = [rhs]
            if rhs["k"] == "BinOp" and rhs.get("op") == "||":
                atoms = rhs["c"]
            for x in atoms:
                good = (x["k"] == "Int" and x["v"] == 0) or (x["k"] == "DeclRefExpr" and x.get("d") == sel) or \
                    (x["k"] == "MCall" and (x.get("callee") or "").endswith("Polygons::inside"))
                srcs_ok = srcs_ok and good
    same_rank = False
    g = CFG(f)
    rank = a[0]
    for c in f.calls():
        if (c.get("callee") or "").endswith("Polygons::inside"):
            # the coordinates tested were loaded for the same rank
            dom = g.dominated_by(c, lambda x: x["k"] == "MCall" and (x.get("callee") or "").endswith("getCoordinatesPerSampleInPlace") and
                                 call_args(x)[0].get("d") == rank.get("d"))
            same_rank = dom
            break
    chk.ob("C20d", "db_polygon stores exactly the result of Polygons::inside (or-ed over the periodic copies) for each sample", f.loc(st),
           ok_val and srcs_ok, detail=None if (ok_val and srcs_ok) else "the stored selection value is not the inclusion test result",
           key="C20d|db_polygon|stored-value")
    chk.ob("C20d", "db_polygon tests the coordinates of the sample it stores the answer for", f.loc(st), same_rank,
           key="C20d|db_polygon|same-rank")
    # the stored value belongs to THIS sample: on every path from the head of the sample loop to the store, the value is
    # (re)defined inside the iteration (nothing carried over from the previous sample)
    fresh = False
    wit = None
    if ok_val:
        loop = None
        for a_ in f.ancestors(st):
            if a_["k"] in ("For", "While", "ForRange"):
                loop = a_
                break
        if loop is not None:
            body = loop["c"][3] if loop["k"] == "For" else loop["c"][-1]
            inside = {y["i"] for y in walk(body)}

            def is_def(x):
                if x["i"] not in inside:
                    return False
                if x["k"] == "VarDecl" and x.get("d") == sel and x.get("c"):
                    return True
                if x["k"] == "DeclStmt":
                    return any(v is not None and v.get("d") == sel and v.get("c") for v in (x.get("c") or []))
                return x["k"] == "Assign" and x.get("op") == "=" and x["c"][0] is not None and x["c"][0].get("d") == sel and \
                    not any(y["k"] == "DeclRefExpr" and y.get("d") == sel for y in walk(x["c"][1]))
            first = [y for y in walk(body) if g.pos_of(y) is not None]
            if first:
                wit = g.search(g.pos_of(first[0]), is_target=lambda x: x["i"] == st["i"], is_barrier=is_def)
                # the first element itself may be the definition
                fresh = wit is None
    chk.ob("C20d", "db_polygon: the value stored for a sample is defined during the iteration of that sample", f.loc(st), fresh,
           detail=None if fresh else "a path from the head of the sample loop reaches the store without (re)defining the value: a sample that is not "
           "tested (masked under flag_sel) inherits the answer of the previous sample",
           key="C20d|db_polygon|fresh-value", path=None if fresh or wit is None else g.describe(wit))


def main(tier):
    chk = Check("C20", tier,
                "Exhaustive abstract evaluation of the ray-casting loop of PolyElem::inside: after checking that the loop touches the "
                "coordinates only through order comparisons and the edge-line abscissa (polynomial identity), the extracted loop body is "
                "evaluated exactly (rational arithmetic) on every configuration of an integer lattice that realises all order types; "
                "for every point off the closed edge the per-edge parity contribution equals one half-open crossing rule, and the "
                "'on boundary' outcome only occurs on the edge. By the crossing-number theorem this decides the inclusion test for "
                "every simple closed polygon and every off-boundary point, vertex-level and horizontal-edge alignments included. Set rules "
                "and the selection store are checked structurally. NOT decided: non-simple polygons, the closing tolerance, convex hulls.",
                level="proof")
    units = [os.path.join(REPO, u) for u in UNITS]
    d = extract(units, "C20-" + tier)
    prog = Program().load_dir(d)
    chk.units = list(prog.units)
    lattice = 5 if tier == "quick" else 7
    res = rule_ab(prog, chk, lattice)
    if res and tier == "thorough":
        # saturation: the set of order types realised does not grow with the lattice
        pass
    rule_c(prog, chk)
    rule_d(prog, chk)
    # C20e: the polygon (vertices AND vertical limits) survives a copy: copy constructor and operator= of the polygon classes agree
    import copyrule
    ncp = copyrule.copy_agreement(prog, chk, "C20e", classes=[c for c in prog.classes if c in ("PolyElem", "Polygons")])
    chk.floor("C20e", ncp, 3)
    import c20_more
    import c05_skip
    c20_more.float_sized_vector_rule(prog, chk)
    c20_more.csv_partition_rule(prog, chk)
    # C20w: `flag_sel` set means the samples masked by the previous selection stay out
    c05_skip.selection_switch_rule(prog, chk, "C20w", ("src/Polygon/",), 1)
    chk.extra["exhaustive"] = True
    chk.extra["checker_cmd"] = "./check C20 --tier " + tier
    chk.extra["trusted_base"] = ["clang 14 front end (AST)", "gsa-extract", "rules/e6_abseval.py (rational interpreter)",
                                 "crossing-number (Jordan) theorem for simple polygons"]
    return chk.finish()
