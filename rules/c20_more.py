"""C20 - further structural rules (wave 9)."""
from facts import show, call_obj, call_args, walk


def _strip(e):
    while e is not None and e["k"] in ("Cast", "Paren") and e.get("c"):
        e = e["c"][0]
    return e


def _ty(e):
    e = _strip(e)
    if e is None:
        return None
    return e.get("rt") if e["k"] in ("Call", "MCall") else e.get("t")


def float_sized_vector_rule(prog, chk):
    """C20x - no vector is built from a coordinate taken for a LENGTH.  `polygon->inside(db->getCoordinate(iech, 0), db->getCoordinate(iech, 1))`
    compiles: the first coordinate is converted to the size of a VectorDouble (all zeros) and the second to the `flag_nested` boolean, so every
    sample is tested at the origin.  The size constructor of the vector classes must never receive a non-literal floating value."""
    n = 0
    for f in sorted(prog.funcs, key=lambda x: (x.file, x.line)):
        if f.body is None:
            continue
        for x in f.walk():
            if x["k"] != "Construct" or not (x.get("sig") or "").split(",")[0].endswith("size_type") or not x.get("c") or x["c"][0] is None:
                continue
            n += 1
            a = _strip(x["c"][0])
            bad = a["k"] != "Float" and _ty(a) in ("double", "float", "const double", "const float")
            if bad:
                chk.analysed(f)
            chk.ob("C20x", "%s: the length of `%s` is a count" % (f.name, show(x)[:50]), f.loc(x), not bad,
                   detail=None if not bad else "the floating value `%s` is converted to the LENGTH of a vector of zeros (implicit size constructor): the "
                   "callee receives the origin instead of the location" % show(a)[:50], key="C20x|%s|%s" % (f.name, show(a)[:40]), nontrivial=bad)
    chk.floor("C20x", n, 5)


def csv_partition_rule(prog, chk):
    """C20p - the rows of a multi-polygon CSV file are split at the separator rows and nowhere else.  `_extractFromTab(ideb, ifin, ..)` copies the
    rows [ideb, ifin[ ; at a separator row i the reader must hand it `ifin = i` and restart at `ideb = i + 1`, and after the loop `ifin = nrow`:
    then every non-separator row belongs to exactly one polygon (a polygon left open keeps its last vertex)."""
    f = prog.fn("Polygons::resetFromCSV")
    g = prog.fn("Polygons::_extractFromTab")
    chk.analysed(f)
    # the callee copies [ideb, ifin[
    pn = [p_["n"] for p_ in g.params]
    half_open = any(L["k"] == "For" and L["c"][1] is not None and _strip(L["c"][1])["k"] == "BinOp" and _strip(L["c"][1]).get("op") == "<" and
                    show(_strip(_strip(L["c"][1])["c"][1])) == pn[1] for L in g.walk())
    chk.ob("C20p", "Polygons::_extractFromTab copies the rows [%s, %s[" % (pn[0], pn[1]), g.loc(), half_open,
           detail=None if half_open else "the copy loop is not `j < %s` any more: re-read the callers" % pn[1], key="C20p|callee")
    n = 1
    for x in f.walk():
        if x["k"] != "If" or x["c"][-3] is None or x["c"][-2] is None:
            continue
        tests = [z for z in walk(x["c"][-3]) if z["k"] == "Call" and (z.get("callee") or "") == "FFFF"]
        calls = [z for z in walk(x["c"][-2]) if z["k"] in ("Call", "MCall") and (z.get("callee") or "").split("::")[-1] == "_extractFromTab"]
        if not tests or not calls:
            continue
        # the separator row: `tab[ncol * i]`
        idx = [z for z in walk(tests[0]) if z["k"] in ("Index", "OpCall")]
        rows = {z.get("d"): z["n"] for y in idx for z in walk(y) if z["k"] == "DeclRefExpr" and z.get("dk") == "var" and (z.get("t") or "") == "int"}
        for c in calls:
            a = call_args(c)
            start, end = _strip(a[0]), _strip(a[1])
            n += 1
            ok_end = end is not None and end["k"] == "DeclRefExpr" and end.get("d") in rows and rows[end["d"]] != show(start)
            nxt = [z for z in walk(x["c"][-2]) if z["k"] == "Assign" and z.get("op") == "=" and show(_strip(z["c"][0])) == show(start)]
            ok_next = bool(nxt) and end is not None and show(_strip(nxt[0]["c"][1])).replace(" ", "") in (show(end) + "+1", "1+" + show(end))
            ok = ok_end and ok_next
            chk.ob("C20p", "Polygons::resetFromCSV: a polygon ends at its separator row and the next starts right after", f.loc(c), ok,
                   detail=None if ok else "at the separator row the reader hands `%s` as (exclusive) end and restarts at `%s`: %s" % (
                       show(end), show(nxt[0]["c"][1]) if nxt else "?", "rows are dropped or shared between two polygons (the last vertex of a "
                       "polygon left open is lost)"), key="C20p|sep")
    tail = [z for z in f.walk() if z["k"] in ("Call", "MCall") and (z.get("callee") or "").split("::")[-1] == "_extractFromTab"]
    chk.floor("C20p", n, 2)
    if len(tail) < 2:
        chk.ob("C20p", "Polygons::resetFromCSV: the rows after the last separator make the last polygon", f.loc(), False,
               detail="the call after the loop is gone", key="C20p|tail")
