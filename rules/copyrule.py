"""Sibling agreement of the two copy operations of a class (Engler-style cross-check).  For every class that defines both
a copy constructor and a copy assignment operator, each data member is classified, for each of the two operations, as
  COPY  - set from the source object (the initialiser / right-hand side / helper argument refers to the parameter),
  CONST - set without looking at the source,
  NONE  - not touched.
A member that one operation COPIES and the other does not makes `T b(a)` and `b = a` produce different objects; when it is
operator= that does not take it, the assigned object keeps a piece of its previous state (history dependence)."""
from facts import call_args, call_obj, show, walk, CALL_KINDS


def _this_field(n):
    while n is not None and n["k"] in ("Cast",):
        n = n["c"][0]
    while n is not None and (n["k"] == "Index" or (n["k"] in ("OpCall",) and n.get("op") in ("[]", "*")) or (n["k"] == "UnOp" and n.get("op") == "*")):
        n = (n.get("c") or [None])[0]
        while n is not None and n["k"] == "Cast":
            n = n["c"][0]
    if n is not None and n["k"] == "MemberExpr" and n.get("mk") == "field":
        b = (n.get("c") or [None])[0]
        if b is None or b["k"] == "This":
            return n["n"]
    return None


def _refs(e, decls):
    return e is not None and any(y["k"] == "DeclRefExpr" and y.get("d") in decls for y in walk(e))


def _merge(out, fl, cls):
    if cls == "COPY" or out.get(fl) is None:
        out[fl] = cls


def treated(prog, f, K, src, depth=0, seen=None):
    """{member: 'COPY'|'CONST'} for the members of `this` written by f; `src` = decl ids carrying the source object
    (the parameter and locals derived from it)"""
    seen = seen if seen is not None else set()
    out = {}
    if f.usr in seen or depth > 3 or f.body is None:
        return out
    seen.add(f.usr)
    src = set(src)
    for x in f.walk():            # locals initialised from the source carry it (e.g. `const X& r = dynamic_cast<..>(m)`)
        if x["k"] == "VarDecl" and x.get("c") and _refs(x["c"][0], src):
            src.add(x["d"])
    for x in f.walk():
        k = x["k"]
        if (k == "Assign" or (k == "OpCall" and (x.get("op") or "").endswith("=") and x.get("op") not in ("==", "!=", "<=", ">="))):
            c = x.get("c") or [None, None]
            fl = _this_field(c[0])
            if fl:
                _merge(out, fl, "COPY" if _refs(c[1] if len(c) > 1 else None, src) else "CONST")
        elif k == "MCall":
            o = call_obj(x)
            fl = _this_field(o)
            anysrc = any(_refs(a, src) for a in call_args(x))
            if fl and not x.get("cconst"):
                _merge(out, fl, "COPY" if anysrc else "CONST")
            if (o is None or o["k"] == "This") and x.get("callee"):
                for g in prog.fns(x["callee"]):
                    if g.cls == K and g.body is not None and len(g.params) == len(call_args(x)):
                        gsrc = {p["d"] for p, a in zip(g.params, call_args(x)) if _refs(a, src)}
                        for fl2, c2 in treated(prog, g, K, gsrc, depth + 1, seen).items():
                            _merge(out, fl2, c2)
        elif k in ("Call",):
            # free function filling a member passed by reference / pointer (memcpy(_x, r._x, ..), std::copy ...)
            args = call_args(x)
            for a in args:
                fl = _this_field(a["c"][0] if a is not None and a["k"] == "UnOp" and a.get("op") == "&" else a)
                if fl and any(_refs(b, src) for b in args):
                    _merge(out, fl, "COPY")
        elif k == "UnOp" and (x.get("op") or "").replace("post", "") in ("++", "--"):
            fl = _this_field((x.get("c") or [None])[0])
            if fl:
                _merge(out, fl, "CONST")
    return out


def base_parts(prog, f, K, src, depth=0, seen=None):
    """base classes of K whose state f takes from the source: a call of a method of the base on `this` with the source as
    argument (Base::operator=(r), Base::_recopy(r) ...), directly or through helpers of K"""
    seen = seen if seen is not None else set()
    out = set()
    if f.usr in seen or depth > 3 or f.body is None:
        return out
    seen.add(f.usr)
    bases = set(prog.bases(K))
    for x in f.walk():
        if x["k"] not in ("MCall", "OpCall") or not x.get("callee") or "::" not in x["callee"]:
            continue
        args = call_args(x) if x["k"] == "MCall" else (x.get("c") or [])[1:]
        o = call_obj(x) if x["k"] == "MCall" else (x.get("c") or [None])[0]
        on_this = o is None or o["k"] == "This" or (o["k"] in ("UnOp", "Cast") and any(y["k"] == "This" for y in walk(o)))
        if not on_this:
            continue
        cls = x["callee"].rsplit("::", 1)[0]
        if cls in bases and any(_refs(a, src) for a in args):
            out.add(cls)
        elif cls == K:
            for g in prog.fns(x["callee"]):
                if g.cls == K and g.body is not None and len(g.params) == len(args):
                    gsrc = {p["d"] for p, a in zip(g.params, args) if _refs(a, src)}
                    if gsrc:
                        out |= base_parts(prog, g, K, gsrc, depth + 1, seen)
    return out


def copy_pairs(prog, classes=None):
    for K in sorted(classes if classes is not None else prog.classes):
        cinfo = prog.classes.get(K)
        if not cinfo:
            continue
        want = "const%s&" % K.replace(" ", "")
        cc = [f for f in prog.funcs if f.cls == K and f.kind == "ctor" and len(f.params) == 1 and f.body is not None and
              f.params[0]["t"].replace(" ", "") == want]
        op = [f for f in prog.funcs if f.cls == K and f.short == "operator=" and len(f.params) == 1 and f.body is not None and
              f.params[0]["t"].replace(" ", "") == want]
        if cc and op:
            yield K, cinfo, cc[0], op[0]


def copy_agreement(prog, chk, rule, classes=None, accepted=None):
    accepted = accepted or {}
    n = 0
    for K, cinfo, cc, op in copy_pairs(prog, classes):
        own = [fd["n"] for fd in cinfo.get("fields", []) if not fd.get("static")]
        pd = cc.params[0]["d"]
        t_cc = {}
        for init in cc.d.get("inits") or []:
            fl = init.get("field")
            if fl and init.get("init") is not None:
                if _refs(init["init"], {pd}):
                    _merge(t_cc, fl, "COPY")
                elif init.get("written"):
                    _merge(t_cc, fl, "CONST")
        for fl, c in treated(prog, cc, K, {pd}).items():
            _merge(t_cc, fl, c)
        t_op = treated(prog, op, K, {op.params[0]["d"]})
        chk.analysed(cc)
        chk.analysed(op)
        # direct base classes: `Base(r)` in the constructor <-> `Base::operator=(r)` in the assignment
        b_cc = set()
        for init in cc.d.get("inits") or []:
            if init.get("base") and init.get("init") is not None and _refs(init["init"], {pd}):
                b_cc.add(init["base"].replace("class ", "").strip())
        b_op = base_parts(prog, op, K, {op.params[0]["d"]})
        b_cc |= base_parts(prog, cc, K, {pd})
        for B in sorted(b_cc | b_op):
            if B == K:
                continue
            # a base without data members and without its own operator= has nothing to carry
            binfo = prog.classes.get(B, {})
            if not binfo.get("fields") and not any(prog.classes.get(bb, {}).get("fields") for bb in prog.bases(B)):
                continue
            n += 1
            ok = (B in b_cc) == (B in b_op)
            why = accepted.get((K, B))
            chk.ob(rule, "%s: the %s part is taken from the source by the copy constructor and by operator= alike" % (K, B),
                   op.loc() if B in b_cc else cc.loc(), ok or bool(why),
                   detail=None if ok else (why or ("the copy constructor copies the %s part, operator= does not call %s::operator=: an assigned object keeps "
                                                   "the base-class state of its previous life" % (B, B) if B in b_cc else
                                                   "operator= assigns the %s part, the copy constructor does not copy-construct it" % B)),
                   key="%s|%s|base %s" % (rule, K, B), nontrivial=True)
        for fl in own:
            a, b = t_cc.get(fl), t_op.get(fl)
            if a != "COPY" and b != "COPY":
                continue
            n += 1
            ok = a == b
            why = accepted.get((K, fl))
            if ok:
                detail = None
            elif a == "COPY":
                detail = "the copy constructor takes %s from the source, operator= %s: after `b = a` the object keeps %s while the rest of its " \
                         "state is the source's" % (fl, "does not touch it" if b is None else "sets it without looking at the source",
                                                    "its previous " + fl if b is None else "a fixed " + fl)
            else:
                detail = "operator= takes %s from the source, the copy constructor %s: a copy-constructed object (clone) differs from an assigned one" % (
                    fl, "leaves it uninitialised / default" if a is None else "sets it to a fixed value")
            chk.ob(rule, "%s::%s is taken from the source by the copy constructor and by operator= alike" % (K, fl),
                   op.loc() if a == "COPY" else cc.loc(), ok or bool(why), detail=detail if not why else why,
                   key="%s|%s|%s" % (rule, K, fl), nontrivial=True)
    return n


# ------------------------------------------------------------------------------------------ ownership rules
def _root_this_field(e):
    while e is not None and (e["k"] in ("Index", "Cast") or (e["k"] == "OpCall" and e.get("op") in ("[]", "*")) or (e["k"] == "UnOp" and e.get("op") == "*")):
        e = e["c"][0]
    return _this_field(e)


def owned_members(prog, K):
    """{member: where}: pointer members (or containers of pointers) that the destructor of K deletes UNCONDITIONALLY,
    directly or through helpers called on this (delAllCov ...)"""
    out = {}
    dt = [f for f in prog.funcs if f.cls == K and f.kind == "dtor" and f.body is not None]
    seen = set()
    work = [(f, 0, False) for f in dt]
    while work:
        f, depth, cond = work.pop()
        if f.usr in seen or depth > 2:
            continue
        seen.add(f.usr)
        for x in f.walk():
            under_if = cond or any(a["k"] in ("If", "Cond") for a in f.ancestors(x))
            if x["k"] == "Delete" and x.get("c") and x["c"][0] is not None:
                e = x["c"][0]
                fl = _root_this_field(e)
                if fl is None:
                    # `delete e` with e the variable of a range-for over a member
                    while e is not None and e["k"] == "Cast":
                        e = e["c"][0]
                    if e is not None and e["k"] == "DeclRefExpr":
                        for a in f.ancestors(x):
                            if a["k"] == "ForRange" and a["c"][0] is not None and a["c"][0].get("d") == e.get("d"):
                                fl = _root_this_field(a["c"][1])
                                under_if = cond or any(b["k"] in ("If", "Cond") for b in f.ancestors(x) if b["i"] != a["i"] and any(z is a for z in f.ancestors(b)) is False and False)
                                break
                if fl and not under_if:
                    out.setdefault(fl, f.loc(x))
            elif x["k"] == "MCall" and x.get("callee") and (call_obj(x) is None or call_obj(x)["k"] == "This"):
                for g in prog.fns(x["callee"]):
                    if g.cls == K and g.body is not None:
                        work.append((g, depth + 1, under_if))
    return out


def ownership_rules(prog, chk, rule_c, rule_d, classes=None):
    """rule_c: operator= empties a container member before it appends the elements of the source to it.
       rule_d: a pointer member (or container of pointers) that the destructor deletes is never taken from the source by value in a copy
               operation: both objects would own, and delete, the same object."""
    nc = nd = 0
    for K, cinfo, cc, op in copy_pairs(prog, classes):
        own = owned_members(prog, K)
        for f, pd in ((cc, cc.params[0]["d"]), (op, op.params[0]["d"])):
            src = {pd}
            # -- shallow copies of owned members
            shallow = {}
            if f is cc:
                for init in f.d.get("inits") or []:
                    fl = init.get("field")
                    e = init.get("init")
                    while e is not None and e["k"] in ("Cast", "Construct") and len(e.get("c") or []) == 1:
                        e = e["c"][0]
                    if fl in own and e is not None and e["k"] == "MemberExpr" and e.get("n") == fl and _refs(e, src):
                        shallow[fl] = f.loc()
            for x in f.walk():
                if x["k"] in ("Assign", "OpCall") and x.get("op") == "=" and len(x.get("c") or []) == 2:
                    fl = _this_field(x["c"][0])
                    e = x["c"][1]
                    while e is not None and e["k"] == "Cast":
                        e = e["c"][0]
                    if fl in own and e is not None and e["k"] == "MemberExpr" and e.get("n") == fl and _refs(e, src):
                        shallow[fl] = f.loc(x)
                if x["k"] == "MCall" and (x.get("callee") or "").split("::")[-1] in ("push_back", "emplace_back"):
                    fl = _this_field(call_obj(x))
                    a = (call_args(x) or [None])[0]
                    if fl in own and a is not None and _refs(a, src) and not any(y["k"] in ("New",) or (y["k"] in ("MCall", "Call") and
                                                                                    (y.get("callee") or "").split("::")[-1] in ("clone", "duplicate", "create")) for y in walk(a)):
                        shallow[fl] = f.loc(x)
            for fl in sorted(own):
                if f is cc or fl in shallow or True:
                    pass
            for fl, where in sorted(shallow.items()):
                nd += 1
                chk.analysed(f)
                chk.ob(rule_d, "%s: the owned member %s is not taken from the source by value" % (f.sig(), fl), where, False,
                       detail="~%s deletes %s (%s) and this copy operation stores the pointer(s) of the source: the copy and its source delete the same "
                       "object(s); modifying or destroying one breaks the other" % (K, fl, own[fl]), key="%s|%s|%s|%s" % (rule_d, K, f.short, fl))
            for fl in sorted(set(own) - set(shallow)):
                nd += 1
                chk.ob(rule_d, "%s: the owned member %s is not taken from the source by value" % (f.sig(), fl), f.loc(), True,
                       key="%s|%s|%s|%s" % (rule_d, K, f.short, fl), nontrivial=False)
        # -- operator= appends to a container member
        from e1_paths import CFG
        g = None
        for x in op.walk():
            if x["k"] == "MCall" and (x.get("callee") or "").split("::")[-1] in ("push_back", "emplace_back"):
                fl = _this_field(call_obj(x))
                if not fl or not any(_refs(a, {op.params[0]["d"]}) for a in call_args(x)) and not any(
                        a["k"] == "ForRange" and _refs(a["c"][1], {op.params[0]["d"]}) for a in op.ancestors(x)):
                    continue
                nc += 1
                chk.analysed(op)
                if g is None:
                    g = CFG(op)

                def clears(y, fl=fl):
                    if y["k"] == "MCall" and (y.get("callee") or "").split("::")[-1] in ("clear",) and _this_field(call_obj(y)) == fl:
                        return True
                    if y["k"] in ("Assign", "OpCall") and y.get("op") == "=" and y.get("c") and _this_field(y["c"][0]) == fl:
                        return True
                    if y["k"] == "MCall" and y.get("callee") and (call_obj(y) is None or call_obj(y)["k"] == "This"):
                        for h in prog.fns(y["callee"]):
                            if h.cls == K and h.body is not None and any(z["k"] == "MCall" and (z.get("callee") or "").split("::")[-1] == "clear" and
                                                                        _this_field(call_obj(z)) == fl for z in h.walk()):
                                return True
                    return False
                w = g.search(g.entry_pos(), is_target=lambda y, x=x: y["i"] == x["i"], is_barrier=clears) if g.pos_of(x) else None
                ok = w is None
                chk.ob(rule_c, "%s::operator= empties %s before it appends the elements of the source" % (K, fl), op.loc(x), ok,
                       detail=None if ok else "the elements of the source are appended to those the object already holds: after `a = b`, a holds its previous "
                       "elements followed by those of b (and the previous ones are not released)", key="%s|%s|%s" % (rule_c, K, fl),
                       path=None if ok else g.describe(w))
    return nc, nd
