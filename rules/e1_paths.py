"""E1 - path rules over the clang CFG emitted by gsa-extract.

Positions are (block id, element index).  Edges out of a block with a condition `tc` are
ordered [true, false] (clang convention), also for the short-circuit operators, loops
([body, exit]) and the conditional operator.  Paths end at the CFG exit block; they are *cut*
(not counted as an exit) at a call of a terminating callee (throw_exp, messageAbort, exit, abort)
and at blocks clang marks no-return.
"""
import re
from collections import deque

from facts import CALL_KINDS, show, walk, AnalysisBroken

TERMINATING = {"throw_exp", "messageAbort", "exit", "abort", "std::abort", "std::exit", "std::terminate"}


class CFG:
    def __init__(self, func):
        self.f = func
        if func.cfg is None:
            raise ValueError("no cfg for " + func.name)
        self.entry = func.cfg["entry"]
        self.exit = func.cfg["exit"]
        self.blocks = {b["b"]: b for b in func.cfg["blocks"]}
        self.preds = {b: [] for b in self.blocks}
        for b in self.blocks.values():
            for s in b["s"]:
                if s is not None:
                    self.preds[s].append(b["b"])
        self.nodes = func.nodes
        self._pos = None

    # ---- element positions -------------------------------------------------------------
    def positions(self):
        if self._pos is None:
            self._pos = {}
            for b in self.blocks.values():
                for i, e in enumerate(b["e"]):
                    self._pos.setdefault(e, (b["b"], i))
        return self._pos

    def pos_of(self, node):
        """CFG position of a statement node: its own element, else that of the nearest ancestor
        which is an element."""
        pos = self.positions()
        n = node
        while n is not None:
            if n["i"] in pos:
                return pos[n["i"]]
            n = self.f.parent(n)
        return None

    def elems(self, b, start=0):
        e = self.blocks[b]["e"]
        for i in range(start, len(e)):
            n = self.nodes.get(e[i])
            if n is not None:
                yield i, n

    def is_terminating(self, n):
        return n["k"] in CALL_KINDS and n.get("callee") in TERMINATING or n["k"] == "Throw"

    def succ_edges(self, b):
        """[(succ block, edge index)] for block b."""
        return [(s, k) for k, s in enumerate(self.blocks[b]["s"]) if s is not None]

    def cond(self, b):
        """the expression whose value selects the successor of block b.  For a statement terminator whose
        condition is `x && y` / `x || y`, this block is reached only after the left operands were decided, so
        the deciding value is the right-most operand."""
        tc = self.blocks[b].get("tc")
        if tc is None or tc < 0:
            return None
        n = self.nodes.get(tc)
        # (for a `&&` / `||` terminator the recorded condition is its left operand, itself possibly a chain)
        while n is not None and n["k"] == "BinOp" and n.get("op") in ("&&", "||"):
            n = n["c"][1]
        return n

    # ---- generic search ------------------------------------------------------------------
    def search(self, start, is_target=None, is_barrier=None, edge_ok=None, to_exit=False,
               start_blocks=None):
        """Breadth-first search from position `start` (block, index: scanning starts AT index).
        Returns a witness dict {'blocks': [...], 'hit': node or None, 'exit': bool} for the first
        target element (is_target) or, with to_exit, for the first arrival at the exit block;
        None when no such path exists.  is_barrier(node) stops a path *before* testing target.
        edge_ok(block dict, edge index, succ) filters edges."""
        seen = set()
        q = deque()
        if start is not None:
            q.append((start[0], start[1], None))
        for sb in start_blocks or []:
            q.append((sb, 0, None))
        parent = {}
        while q:
            b, i0, par = q.popleft()
            key = (b, i0)
            if key in seen:
                continue
            seen.add(key)
            parent[key] = par
            blk = self.blocks[b]
            stopped = False
            for i, n in self.elems(b, key[1]):
                if is_barrier and is_barrier(n):
                    stopped = True
                    break
                if self.is_terminating(n):
                    stopped = True
                    break
                if is_target and is_target(n):
                    return {"blocks": self._chain(parent, key), "hit": n, "exit": False}
            if stopped:
                continue
            if blk.get("noret"):
                continue
            if b == self.exit:
                if to_exit:
                    return {"blocks": self._chain(parent, key), "hit": None, "exit": True}
                continue
            for s, k in self.succ_edges(b):
                if edge_ok and not edge_ok(blk, k, s):
                    continue
                q.append((s, 0, key))
        return None

    # ---- path consistency on repeated stable conditions -------------------------------------
    def stable_vars(self):
        """decl ids of parameters / locals that are never re-assigned after their initialisation (and whose
        address is never taken): a branch condition over them has one value during one execution."""
        if getattr(self, "_stable", None) is not None:
            return self._stable
        written = {}
        addr = set()
        decls = set()
        for n in self.f.walk():
            k = n["k"]
            if k == "VarDecl":
                decls.add(n["d"])
                written[n["d"]] = written.get(n["d"], 0) + 1
            elif k == "Assign":
                l = (n.get("c") or [None])[0]
                if l is not None and l["k"] == "DeclRefExpr":
                    written[l["d"]] = written.get(l["d"], 0) + 2
            elif k == "UnOp" and n.get("op") in ("++", "--", "post++", "post--", "&"):
                x = (n.get("c") or [None])[0]
                if x is not None and x["k"] == "DeclRefExpr":
                    addr.add(x["d"])
        for p in self.f.params:
            decls.add(p["d"])
        # loop variables declared inside a loop body are re-initialised each iteration: keep only top-level
        # single definitions; a VarDecl inside a loop counts as multiple definitions
        inloop = set()
        for n in self.f.walk():
            if n["k"] in ("For", "While", "Do", "ForRange"):
                for x in walk(n):
                    if x["k"] == "VarDecl":
                        inloop.add(x["d"])
        self._stable = {d for d in decls if written.get(d, 0) <= 1 and d not in addr and d not in inloop}
        return self._stable

    def stable_key(self, core):
        """a canonical string for a branch condition that only reads stable variables and literals, else None"""
        if core is None:
            return None
        st = self.stable_vars()
        for x in walk(core):
            k = x["k"]
            if k == "DeclRefExpr":
                if x.get("dk") in ("enum", "smember"):
                    continue          # enumerators / static constant members (EStatOption::VAR ...)
                if x.get("d") not in st:
                    return None
            elif k in ("Int", "Float", "Bool", "BinOp", "UnOp", "Null", "Cast"):
                if k == "UnOp" and x.get("op") not in ("!", "-"):
                    return None
            elif k == "OpCall" and x.get("op") in ("==", "!=") and len(x.get("c") or []) == 2:
                pass          # comparison of enum-like objects (operator== of the AEnum classes): pure
            elif k == "MCall" and x.get("cconst") and len(x.get("c") or []) == 1 and (x["c"][0] is None or x["c"][0]["k"] == "This") and \
                    (x.get("callee") or "").split("::")[-1].startswith(("get", "is", "has")):
                # const getter of `this` without argument: stable as long as the function calls no setter of that attribute
                stem = re.sub(r"^(get|is|has)", "", x["callee"].split("::")[-1])
                if any(c.get("callee") and c["callee"].split("::")[-1] in ("set" + stem, "_set" + stem) for c in self.f.calls()):
                    return None
            elif k == "This":
                pass
            elif k == "DeclRefExpr":
                pass
            else:
                return None
        return show(core)

    def search_consistent(self, start, is_target=None, is_barrier=None, edge_ok=None, to_exit=False, _assume=None, _depth=0):
        """like search(), but a witness on which one stable condition takes both truth values is discarded:
        the search is re-run under each assumption on that condition."""
        assume = dict(_assume or {})

        def eo(blk, k, s):
            if edge_ok and not edge_ok(blk, k, s):
                return False
            if assume and len(blk["s"]) == 2:
                c = self.cond(blk["b"])
                if c is not None:
                    core, pol = peel_cond(c)
                    key = self.stable_key(core)
                    if key in assume:
                        return ((k == 0) == pol) == assume[key]
            return True
        wit = self.search(start, is_target=is_target, is_barrier=is_barrier, edge_ok=eo, to_exit=to_exit)
        if wit is None or _depth >= 6:
            return wit
        seen = {}
        bl = wit["blocks"]
        for a, b in zip(bl, bl[1:]):
            blk = self.blocks[a]
            if len(blk["s"]) != 2:
                continue
            c = self.cond(a)
            if c is None:
                continue
            core, pol = peel_cond(c)
            key = self.stable_key(core)
            if key is None:
                continue
            if blk["s"][0] == blk["s"][1]:
                continue
            truth = (blk["s"].index(b) == 0) == pol
            if key in seen and seen[key] != truth:
                for v in (True, False):
                    a2 = dict(assume)
                    a2[key] = v
                    w = self.search_consistent(start, is_target, is_barrier, edge_ok, to_exit, a2, _depth + 1)
                    if w is not None:
                        return w
                return None
            seen[key] = truth
        return wit

    def stable_keys_in_use(self, min_blocks=2):
        """stable condition keys tested in at least `min_blocks` blocks (candidates for case analysis)"""
        cnt = {}
        for b in self.blocks.values():
            if len(b["s"]) != 2:
                continue
            c = self.cond(b["b"])
            if c is None:
                continue
            core, pol = peel_cond(c)
            k = self.stable_key(core)
            if k:
                cnt[k] = cnt.get(k, 0) + 1
        return sorted(k for k, v in cnt.items() if v >= min_blocks)

    def path_through(self, via_node, is_barrier=None, edge_ok=None, exit_pred=None, max_keys=8):
        """a complete path entry -> via_node -> exit (no barrier element after via_node), consistent on the repeated stable
        conditions: by case analysis over every truth assignment of those conditions.  exit_pred(return node or None)
        selects the exits that count.  Returns (witness of the suffix, assumption) or None."""
        import itertools
        p = self.pos_of(via_node)
        if p is None:
            return None
        vid = self.blocks[p[0]]["e"][p[1]]
        # relevant conditions: tested both before the site (blocks that reach it) and after it (blocks it reaches)
        def reach(start, fwd):
            seen, work = set(), [start]
            while work:
                b = work.pop()
                if b in seen:
                    continue
                seen.add(b)
                if fwd:
                    work += [s for s in self.blocks[b]["s"] if s is not None]
                else:
                    work += [a for a, blk in self.blocks.items() if b in blk["s"]]
            return seen

        def keys_of(blocks):
            out = set()
            for b in blocks:
                blk = self.blocks[b]
                if len(blk["s"]) != 2:
                    continue
                c = self.cond(b)
                if c is None:
                    continue
                k = self.stable_key(peel_cond(c)[0])
                if k:
                    out.add(k)
            return out
        keys = sorted(keys_of(reach(p[0], False)) & keys_of(reach(p[0], True)))
        if len(keys) > max_keys:
            raise AnalysisBroken("path_through: %d repeated conditions around %s (limit %d)" % (len(keys), via_node.get("i"), max_keys))

        def exclusive_ok(assume):
            # `x == A` and `x == B` with different constants are never both true
            byl = {}
            for k, v in assume.items():
                if v and " == " in k and "||" not in k and "&&" not in k:
                    l, r = k.split(" == ", 1)
                    if l in byl and byl[l] != r:
                        return False
                    byl[l] = r
            return True

        def is_exit_ret(n):
            return n["k"] == "Return" and (exit_pred is None or exit_pred(n))
        for vals in itertools.product((True, False), repeat=len(keys)):
            assume = dict(zip(keys, vals))
            if not exclusive_ok(assume):
                continue
            pre = self.search_consistent(self.entry_pos(), is_target=lambda n: n["i"] == vid, edge_ok=edge_ok, _assume=assume)
            if pre is None:
                continue
            suf = self.search_consistent((p[0], p[1] + 1), is_target=is_exit_ret, is_barrier=is_barrier, edge_ok=edge_ok, _assume=assume)
            if suf is None and exit_pred is None:
                suf = self.search_consistent((p[0], p[1] + 1), to_exit=True, is_barrier=is_barrier, edge_ok=edge_ok, _assume=assume)
            if suf is not None:
                return suf, assume
        return None

    def implied_at(self, node):
        """stable conditions whose value is forced on every path from the entry to `node`"""
        keys = set()
        for b in self.blocks.values():
            if len(b["s"]) != 2:
                continue
            c = self.cond(b["b"])
            if c is None:
                continue
            core, pol = peel_cond(c)
            k = self.stable_key(core)
            if k:
                keys.add(k)
        out = {}
        tp = self.pos_of(node)
        if tp is None:
            return out
        tid = self.blocks[tp[0]]["e"][tp[1]]
        for k in keys:
            for v in (True, False):
                w = self.search_consistent(self.entry_pos(), is_target=lambda n: n["i"] == tid, _assume={k: v})
                if w is None:
                    out[k] = not v
        return out

    def _chain(self, parent, key):
        out = []
        while key is not None:
            out.append(key[0])
            key = parent.get(key)
        return list(reversed(out))

    # ---- rules ------------------------------------------------------------------------
    def after(self, node):
        p = self.pos_of(node)
        if p is None:
            return None
        return (p[0], p[1] + 1)

    def exit_without(self, after_node, is_release, edge_ok=None):
        """Pairing: a path from just after `after_node` to the function exit with no element
        satisfying is_release.  Returns witness or None."""
        st = self.after(after_node)
        if st is None:
            return None
        return self.search(st, is_barrier=is_release, to_exit=True, edge_ok=edge_ok)

    def reach_without(self, from_pos, target_node, is_barrier=None, edge_ok=None):
        """A path from from_pos to the element of target_node (not passing a barrier / using
        only allowed edges)."""
        tp = self.pos_of(target_node)
        if tp is None:
            return None
        tid = self.blocks[tp[0]]["e"][tp[1]]
        return self.search(from_pos, is_target=lambda n: n["i"] == tid, is_barrier=is_barrier,
                           edge_ok=edge_ok)

    def entry_pos(self):
        return (self.entry, 0)

    def dominated_by(self, node, is_dom):
        """True when every path entry -> node contains an element satisfying is_dom."""
        return self.reach_without(self.entry_pos(), node, is_barrier=is_dom) is None

    # ---- witness rendering ---------------------------------------------------------------
    def describe(self, wit):
        """Human-readable branch decisions along a witness path."""
        out = []
        bl = wit["blocks"]
        for a, b in zip(bl, bl[1:]):
            blk = self.blocks[a]
            c = self.cond(a)
            if c is not None and len([s for s in blk["s"] if s is not None]) > 1:
                try:
                    k = blk["s"].index(b)
                except ValueError:
                    k = -1
                lab = {0: "true", 1: "false"}.get(k, "case#%d" % k)
                out.append("line %s: (%s) is %s" % (c.get("l", "?"), show(c)[:80], lab))
        last = None
        for b in reversed(bl):
            es = self.blocks[b]["e"]
            if es:
                last = self.nodes.get(es[-1])
                break
        if wit.get("exit"):
            ret = None
            for b in reversed(bl):
                for e in reversed(self.blocks[b]["e"]):
                    n = self.nodes.get(e)
                    if n is not None and n["k"] == "Return":
                        ret = n
                        break
                if ret is not None:
                    break
            if ret is not None:
                out.append("line %s: %s" % (ret.get("l", "?"), show(ret)[:80]))
            else:
                out.append("falls off the end of the function")
        elif wit.get("hit") is not None:
            out.append("line %s: reaches %s" % (wit["hit"].get("l", "?"), show(wit["hit"])[:80]))
        return out


# ------------------------------------------------------------------------------------------
# Conditions and gates
# ------------------------------------------------------------------------------------------

def peel_cond(c):
    """Normalise a branch condition to (core expression, polarity): polarity True means the
    *true* edge of the branch is the one on which `core` is true/non-zero."""
    pol = True
    while c is not None:
        k = c["k"]
        ch = c.get("c") or []
        if k == "UnOp" and c.get("op") == "!":
            pol = not pol
            c = ch[0]
            continue
        if k == "BinOp" and c.get("op") in ("==", "!=") and len(ch) == 2:
            a, b = ch
            lit = None
            other = None
            for x, y in ((a, b), (b, a)):
                if x is not None and x["k"] in ("Int", "Bool", "Null"):
                    lit, other = x, y
            if lit is not None and other is not None:
                v = lit.get("v", 0)
                zero = (v == 0 or v is False or lit["k"] == "Null")
                if zero:
                    if c["op"] == "==":
                        pol = not pol
                    c = other
                    continue
                if lit["k"] == "Bool" and v is True:
                    if c["op"] == "!=":
                        pol = not pol
                    c = other
                    continue
            break
        if k == "Cast":
            c = ch[0] if ch else None
            continue
        break
    return c, pol


def edge_passes(cfgobj, blk, k, is_gate_true, is_gate_false=None):
    """For the edge #k out of blk: returns 'pass' when the edge asserts that a gate holds
    (is_gate_true(core) on the edge where core is true, or is_gate_false(core) on the edge where
    core is false), 'fail' for the opposite edge of a gate test, None for edges that say nothing."""
    c = cfgobj.cond(blk["b"])
    if c is None:
        return None
    core, pol = peel_cond(c)
    if core is None:
        return None
    truth_on_edge = (k == 0) == pol   # value of `core` along this edge (for 2-way branches)
    if len(blk["s"]) != 2:
        return None
    if is_gate_true and is_gate_true(core):
        return "pass" if truth_on_edge else "fail"
    if is_gate_false and is_gate_false(core):
        return "pass" if not truth_on_edge else "fail"
    return None


def single_def(func, decl_id):
    """The unique defining expression of a local variable (its initialiser, when it is never
    re-assigned, incremented or passed by address), else None."""
    init = None
    ndef = 0
    for n in func.walk():
        k = n["k"]
        if k == "VarDecl" and n.get("d") == decl_id:
            c = n.get("c") or []
            if c:
                init = c[0]
            ndef += 1
        elif k == "Assign":
            lhs = (n.get("c") or [None])[0]
            if lhs is not None and lhs["k"] == "DeclRefExpr" and lhs.get("d") == decl_id:
                ndef += 1
                init = (n["c"][1] if n.get("op") == "=" else None)
                if n.get("op") != "=":
                    return None
        elif k == "UnOp" and n.get("op") in ("++", "--", "post++", "post--", "&"):
            x = (n.get("c") or [None])[0]
            if x is not None and x["k"] == "DeclRefExpr" and x.get("d") == decl_id:
                return None
    if ndef == 1:
        return init
    return None
