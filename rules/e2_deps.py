"""E2 - flow-sensitive data dependence over the CFG (reaching 'depends-on' sets).

State: variable key -> set of atoms.  Atoms are names of fields of `this` ("F:_dx"), parameters ("P:coor"), and call
tokens ("C:rotateDirect") for values produced by a call.  May-analysis: union at joins.  Element writes indexed by the
variable of an enclosing counted loop rewrite the whole array (strong update: gstlearn fills its member work arrays in
`for (idim < _nDim)` loops and re-uses them on different branches); other element writes are weak updates."""
from e1_paths import CFG
from facts import CALL_KINDS, call_args, call_obj, show, walk


def var_key(n):
    """key of an lvalue root: local / parameter decl, or field of this"""
    while n is not None:
        k = n["k"]
        if k == "DeclRefExpr" and n.get("dk") in ("var", "parm"):
            return ("L", n["d"], n["n"])
        if k == "MemberExpr" and n.get("mk") == "field":
            b = (n.get("c") or [None])[0]
            if b is None or b["k"] == "This":
                return ("F", n["n"], n["n"])
            return None
        if k in ("Index", "Cast") or (k == "OpCall" and n.get("op") in ("[]", "*")) or (k == "UnOp" and n.get("op") == "*"):
            n = (n.get("c") or [None])[0]
            continue
        if k == "Construct" and len(n.get("c") or []) == 1 and (n.get("t") or "").replace("const", "").strip() in ("vect", "vectint", "std::span<double>", "std::span<int>"):
            n = n["c"][0]          # a span built over a vector designates the vector
            continue
        return None
    return None


class Deps:
    def __init__(self, f, out_params_of=None, nonempty_loops=False):
        """nonempty_loops: counted loops `for (i = 0; i < N; i++)` are taken to run at least once (N is a space dimension /
        a size known to be positive): the state that leaves such a loop is the one at the end of its body, not the one
        before it.  Without it a vector filled in a dimension loop keeps what the previous iteration of an OUTER loop left."""
        self.nonempty_loops = nonempty_loops
        self.f = f
        self.g = CFG(f)
        self.params = {p["d"]: p["n"] for p in f.params}
        self.loopvars = set()
        for n in f.walk():
            if n["k"] == "For" and n["c"][0] is not None:
                for x in walk(n["c"][0]):
                    if x["k"] == "VarDecl":
                        self.loopvars.add(x["d"])
        self.out_params_of = out_params_of or (lambda call: None)
        self.IN = None

    # ---- expression dependencies under a state
    def deps(self, e, st):
        out = set()
        if e is None:
            return out
        for x in walk(e):
            k = x["k"]
            if k == "DeclRefExpr" and x.get("dk") in ("var", "parm"):
                key = ("L", x["d"], x["n"])
                if key in st:
                    out |= st[key]
                elif x["d"] in self.params:
                    out.add("P:" + x["n"])
            elif k == "MemberExpr" and x.get("mk") == "field":
                b = (x.get("c") or [None])[0]
                if b is None or b["k"] == "This":
                    key = ("F", x["n"], x["n"])
                    if key in st:
                        out |= st[key]
                    else:
                        out.add("F:" + x["n"])
            elif k in CALL_KINDS and x.get("callee"):
                out.add("C:" + x["callee"].split("::")[-1])
        return out

    def _nonconst_out_args(self, call):
        """argument nodes that the callee may write (non-const reference / pointer / span parameters)"""
        custom = self.out_params_of(call)
        args = call_args(call)
        if custom is not None:
            return [args[i] for i in custom if i < len(args)]
        sig = (call.get("sig") or "")
        types = _split_sig(sig)
        out = []
        for i, a in enumerate(args):
            if i >= len(types) or a is None:
                continue
            t = types[i].strip()
            writable = (t.endswith("&") and not t.startswith("const ")) or \
                       (t.endswith("*") and not t.startswith("const ")) or \
                       t in ("vect", "vectint", "std::span<double>", "std::span<int>", "const vect", "const vectint")
            if writable and var_key(a) is not None:
                out.append(a)
        return out

    def transfer(self, st, n):
        k = n["k"]
        c = n.get("c") or []
        if k == "DeclStmt":
            for v in c:
                if v is not None:
                    st = self.transfer(st, v)
            return st
        if k == "VarDecl":
            st = dict(st)
            st[("L", n["d"], n["n"])] = self.deps(c[0], st) if c else set()
            return st
        if k == "Assign" or (k == "OpCall" and n.get("op") in ("=", "+=", "-=", "*=", "/=")):
            lhs, rhs = c[0], c[1]
            key = var_key(lhs)
            if key is None:
                return st
            st = dict(st)
            new = self.deps(rhs, st)
            # index expressions of the lhs do not flow into the value
            elem = lhs is not None and (lhs["k"] in ("Index",) or (lhs["k"] == "OpCall" and lhs.get("op") == "[]"))
            strong = True
            if elem:
                idx = lhs["c"][1]
                strong = idx is not None and idx["k"] == "DeclRefExpr" and idx.get("d") in self.loopvars
            if n.get("op") != "=":
                strong = False
            if strong:
                st[key] = new
            else:
                st[key] = set(st.get(key, self._initial(key))) | new
            return st
        if k in CALL_KINDS and k != "OpCall":
            outs = self._nonconst_out_args(n)
            if outs:
                st = dict(st)
                alld = set()
                for a in call_args(n):
                    alld |= self.deps(a, st)
                o = call_obj(n)
                if o is not None:
                    alld |= self.deps(o, st)
                alld.add("C:" + (n.get("callee") or "?").split("::")[-1])
                for a in outs:
                    key = var_key(a)
                    st[key] = set(alld)
            return st
        return st

    def _initial(self, key):
        if key[0] == "F":
            return {"F:" + key[1]}
        if key[1] in self.params:
            return {"P:" + key[2]}
        return set()

    def _counted_header(self, b):
        """block b is the condition block of a counted `for (..; i < N; ..)` loop"""
        blk = self.g.blocks[b]
        if len([x for x in blk["s"] if x is not None]) != 2 or not any(p < b for p in self.g.preds[b]):
            return False
        tc = self.g.nodes.get(blk.get("tc")) if blk.get("tc") is not None else None
        par = self.f.parent(tc) if tc is not None else None
        if par is None or par["k"] != "For":
            return False
        c = self.g.cond(b)
        return c is not None and c["k"] == "BinOp" and c.get("op") == "<" and c["c"][0] is not None and \
            c["c"][0]["k"] == "DeclRefExpr" and c["c"][0].get("d") in self.loopvars

    def solve(self):
        g = self.g
        IN = {g.entry: {}}
        OUT = {}
        work = [g.entry]
        while work:
            b = work.pop()
            st = IN[b]
            for i, n in g.elems(b):
                st = self.transfer(st, n)
            counted = self.nonempty_loops and self._counted_header(b)
            out_changed = OUT.get(b) != st
            OUT[b] = st
            if self.nonempty_loops and out_changed:
                # a latch whose state changed re-opens its (counted) loop header even when the header's IN did not grow
                for s in g.blocks[b]["s"]:
                    if s is not None and s > b and s in IN and self._counted_header(s) and s not in work:
                        work.append(s)
            for si, s in enumerate(g.blocks[b]["s"]):
                if s is None:
                    continue
                if counted and si == 1:
                    # exit edge of a loop that runs at least once: only what comes round the back edge leaves the loop
                    back = [OUT[p] for p in g.preds[b] if p < b and p in OUT]
                    if not back:
                        continue
                    st_exit = {}
                    keys = set()
                    for o in back:
                        keys |= set(o)
                    for k in keys:
                        acc = set()
                        for o in back:
                            acc |= o[k] if k in o else self._initial(k)
                        st_exit[k] = acc
                    for i, n in g.elems(b):
                        st_exit = self.transfer(st_exit, n)
                    self._flow(IN, work, s, st_exit)
                    continue
                self._flow(IN, work, s, st)
        self.IN = IN
        return self

    def _flow(self, IN, work, s, st):
        if True:
            if True:
                if s not in IN:
                    IN[s] = {k: set(v) for k, v in st.items()}
                    work.append(s)
                else:
                    changed = False
                    cur = IN[s]
                    for k, v in st.items():
                        if k not in cur:
                            # absent on the other path = the variable's own initial identity
                            cur[k] = set(v) | self._initial(k)
                            changed = True
                        elif not v <= cur[k]:
                            cur[k] = cur[k] | v
                            changed = True
                    for k in list(cur):
                        if k not in st:
                            init = self._initial(k)
                            if not init <= cur[k]:
                                cur[k] |= init
                                changed = True
                    if changed:
                        work.append(s)

    def state_before(self, node):
        """dependence state just before the CFG element of `node`"""
        if self.IN is None:
            self.solve()
        p = self.g.pos_of(node)
        if p is None or p[0] not in self.IN:
            return {}
        st = self.IN[p[0]]
        for i, n in self.g.elems(p[0]):
            if i >= p[1]:
                break
            st = self.transfer(st, n)
        return st


def _split_sig(sig):
    out, depth, cur = [], 0, ""
    for ch in sig:
        if ch in "<(":
            depth += 1
        elif ch in ">)":
            depth -= 1
        if ch == "," and depth == 0:
            out.append(cur)
            cur = ""
        else:
            cur += ch
    if cur:
        out.append(cur)
    return out
