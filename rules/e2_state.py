"""Small forward *must* analysis of boolean object flags (typestate refinement used by the path rules
to discard infeasible failure exits).

Facts are sets of field names known to be true.
 - inside a member function: `F = true` gens F, any other write of F kills it, `F = p` with the
   parameter p bound to the literal true at the call site gens F; calls of other members of the class
   kill the fields in their (transitive) write set.  Branches on a literal-bound parameter are pruned.
 - `post_true(method, literal args)`: fields true at every successful return of the method.
 - `guard_fields(method)`: fields F such that every failing return of the method is reachable only
   through the F==false edge of a test of F; the method cannot fail while F is true.
"""
from e1_paths import CFG, peel_cond
from facts import walk


def this_field(n):
    if n is None or n["k"] != "MemberExpr" or n.get("mk") != "field":
        return None
    b = (n.get("c") or [None])[0]
    if b is None or b["k"] == "This":
        return n["n"]
    return None


def lit_bool(n):
    if n is None:
        return None
    if n["k"] == "Bool":
        return bool(n.get("v"))
    if n["k"] == "Int":
        return bool(n.get("v"))
    return None


def is_failing_return(n, ret_type):
    """`return <literal failure>`: non-zero literal for int functions, false for bool functions."""
    if n["k"] != "Return":
        return False
    c = n.get("c") or []
    if not c or c[0] is None:
        return False
    v = lit_bool(c[0])
    if v is None:
        return False
    if ret_type.startswith("bool"):
        # repo convention leak: `return 1` in a bool function reports *success*; only `false`/0 fails
        return v is False
    return v is True


def is_success_return(n, ret_type):
    if n["k"] != "Return":
        return False
    return not is_failing_return(n, ret_type)


class ClassFlags:
    def __init__(self, prog, cls, effects, closure):
        """effects: name -> {'writes','calls',...} from c10._class_effects ; closure(eff,name,what)"""
        self.prog = prog
        self.cls = cls
        self.eff = effects
        self.closure = closure
        self._guard = {}
        self._post = {}

    def methods(self):
        return [e["f"] for e in self.eff.values() if e["f"].cfg is not None]

    def guard_fields(self, m):
        if m.name in self._guard:
            return self._guard[m.name]
        g = CFG(m)
        cands = set()
        for b in g.blocks.values():
            c = g.cond(b["b"])
            if c is None:
                continue
            core, pol = peel_cond(c)
            f = this_field(core)
            if f:
                cands.add(f)
        out = set()
        has_fail = any(is_failing_return(n, m.ret) for n in m.walk())
        for F in cands:
            def only_true(blk, k, s_, F=F):
                c = g.cond(blk["b"])
                if c is None or len(blk["s"]) != 2:
                    return True
                core, pol = peel_cond(c)
                if this_field(core) == F:
                    return (k == 0) == pol
                return True
            # F must not be written by the method before its failing returns (conservative: not at all)
            if F in self.closure(self.eff, m.name, "writes"):
                continue
            if has_fail and g.search(g.entry_pos(), is_target=lambda n: is_failing_return(n, m.ret),
                                     edge_ok=only_true) is None:
                out.add(F)
        if not has_fail:
            out.add("*")     # never fails at all
        self._guard[m.name] = out
        return out

    def post_true(self, m, lit_args):
        """fields known true at every successful return of m when called with the given literal
        arguments (tuple of True/False/None per parameter)."""
        key = (m.name, tuple(lit_args))
        if key in self._post:
            return self._post[key]
        bind = {}
        for p, v in zip(m.params, lit_args):
            if v is not None:
                bind[p["d"]] = v
        g = CFG(m)

        def transfer(facts, n):
            k = n["k"]
            c = n.get("c") or []
            if k == "Assign" and c:
                F = this_field(c[0])
                if F:
                    facts = set(facts)
                    v = None
                    if n.get("op") == "=":
                        r = c[1]
                        v = lit_bool(r)
                        if v is None and r is not None and r["k"] == "DeclRefExpr" and r.get("d") in bind:
                            v = bind[r["d"]]
                    if v is True:
                        facts.add(F)
                    else:
                        facts.discard(F)
            elif k == "MCall":
                cal = n.get("callee")
                if cal in self.eff and (not c or c[0] is None or c[0]["k"] == "This"):
                    w = self.closure(self.eff, cal, "writes")
                    if w & facts:
                        facts = set(facts) - w
            return facts

        def edge_ok(blk, kk):
            c = g.cond(blk["b"])
            if c is None or len(blk["s"]) != 2:
                return True
            core, pol = peel_cond(c)
            if core is not None and core["k"] == "DeclRefExpr" and core.get("d") in bind:
                return ((kk == 0) == pol) == bind[core["d"]]
            return True

        res = forward_must(g, transfer, edge_ok)
        out = None
        for b in g.blocks.values():
            facts = res.get(b["b"])
            if facts is None:
                continue
            cur = facts
            for i, n in g.elems(b["b"]):
                cur = transfer(cur, n)
                if is_success_return(n, m.ret):
                    out = set(cur) if out is None else (out & cur)
        self._post[key] = out or set()
        return self._post[key]


def forward_must(g, transfer, edge_ok=None, entry_facts=frozenset(), edge_gen=None):
    """facts at block ENTRY for every reachable block (intersection over incoming edges).
    edge_gen(blk, k, facts_at_block_end) -> facts along edge #k (to add success postconditions)."""
    IN = {g.entry: set(entry_facts)}
    work = [g.entry]
    while work:
        b = work.pop()
        facts = IN[b]
        cur = facts
        for i, n in g.elems(b):
            cur = transfer(cur, n)
        blk = g.blocks[b]
        for k, s in enumerate(blk["s"]):
            if s is None:
                continue
            if edge_ok and not edge_ok(blk, k):
                continue
            out = cur
            if edge_gen:
                out = edge_gen(blk, k, cur)
            if s not in IN:
                IN[s] = set(out)
                work.append(s)
            else:
                new = IN[s] & out
                if new != IN[s]:
                    IN[s] = new
                    work.append(s)
    return IN
