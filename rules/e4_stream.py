"""E4 - stream grammar of the neutral-file writers and readers.

Each `_serialize` / `_deserialize` body is abstracted into a tree of record items:
  writer: TOK(T, eol)  one value (eol: a title follows, the line ends)     NLW  end of line / comment line
          WVEC(T)      one line of values (_recordWriteVec / _tableWrite)
  reader: RTOK(T)      one word (skips comments and line ends)              RVEC(T)  one whole line of n values
  both  : CALL(C)      base-class or nested object stream                   IF(c){..}{..}   LOOP(b){..}
and the two trees are matched by structural simulation (writer line state carried along so that a line read only
happens where the writer is at a line start and ends the line after the values)."""
from e1_paths import peel_cond, single_def
from facts import CALL_KINDS, call_args, call_obj, show, walk

W_PRIMS = ("ASerializable::_recordWrite", "ASerializable::_recordWriteVec", "ASerializable::_commentWrite", "ASerializable::_tableWrite")
R_PRIMS = ("ASerializable::_recordRead", "ASerializable::_recordReadVec", "ASerializable::_recordReadVecInPlace", "ASerializable::_tableRead")


def _norm_type(t):
    t = t.replace("const ", "").replace("&", "").strip()
    for pre in ("std::vector<", "VectorT<", "VectorNumT<"):
        if t.startswith(pre):
            t = t[len(pre):].rstrip(">").strip()
    if "basic_string" in t or t == "String":
        return "String"
    if "iterator" in t:
        return "double"
    if t in ("int", "double", "float", "bool", "long", "unsigned int"):
        return {"float": "double", "long": "int", "unsigned int": "int", "bool": "int"}.get(t, t)
    return t


def _rec_type(c):
    cal = c["callee"]
    if cal.endswith("_commentWrite"):
        return ""
    if cal.endswith(("_tableWrite", "_tableRead")):
        return "double"
    sig = _split_sig(c.get("sig") or "")
    return _norm_type(sig[2]) if len(sig) > 2 else "?"


def _split_sig(sig):
    out, depth, cur = [], 0, ""
    for ch in sig:
        if ch in "<(":
            depth += 1
        elif ch in ">)":
            depth -= 1
        if ch == "," and depth == 0:
            out.append(cur)
            cur = ""
        else:
            cur += ch
    if cur:
        out.append(cur)
    return out


def _empty_title(a):
    """the title argument is the empty string"""
    if a is None:
        return False
    strs = [x for x in walk(a) if x["k"] == "Str"]
    if strs and all((x.get("v") or "") == "" for x in strs) and not any(x["k"] in ("DeclRefExpr", "MemberExpr", "MCall", "Call") for x in walk(a)):
        return True
    if a["k"] == "Construct" and not (a.get("c") or []):
        return True
    return False


def _strip_casts(e):
    while e is not None and e["k"] in ("Cast",) and e.get("c"):
        e = e["c"][0]
    return e


def _expr_type(e):
    e = _strip_casts(e)
    if e is None:
        return None
    t = e.get("t") or e.get("rt")
    if e["k"] == "Int":
        return "int"
    if e["k"] == "Float":
        return "double"
    if e["k"] == "Str":
        return "String"
    return _norm_type(t) if t else None


class Builder:
    def __init__(self, prog, role):
        self.prog = prog
        self.role = role          # 'W' or 'R'
        self.unresolved = []

    def const_statics(self, f):
        """static / const int locals with a literal initialiser that are never re-assigned"""
        out = {}
        for n in f.walk():
            if n["k"] == "VarDecl" and n.get("c") and n["c"][0] is not None and n["c"][0]["k"] in ("Int", "Bool"):
                if n.get("static") or (n.get("t") or "").startswith("const "):
                    d = n["d"]
                    if not any(x["k"] == "Assign" and x["c"][0] is not None and x["c"][0].get("d") == d for x in f.walk()):
                        out[d] = n["c"][0]["v"]
        return out

    def build(self, f, depth=0, stack=()):
        self.f = f
        return self._block_items(f, [f.body], depth, stack)

    def _block_items(self, f, stmts, depth, stack):
        out = []
        for i, s in enumerate(stmts):
            if s is None:
                continue
            if s["k"] == "Block":
                out += self._block_items(f, s["c"], depth, stack)
                continue
            if s["k"] == "If":
                slots = s["c"]
                cond = [x for x in slots[:-2] if x is not None][-1]
                then, els = slots[-2], slots[-1]
                # `if (c) continue;`  ==>  IF(!c){ rest of the block }
                tstm = then["c"] if (then is not None and then["k"] == "Block") else [then]
                if len([x for x in tstm if x is not None]) == 1 and [x for x in tstm if x is not None][0]["k"] == "Continue" and els is None:
                    rest = self._block_items(f, stmts[i + 1:], depth, stack)
                    pre = self._expr_items(f, cond, depth, stack)
                    out += pre
                    if rest:
                        out.append(("IF", cond, [], rest, True))      # True: rest is the ELSE side of cond
                    return out
            out += self._stmt_items(f, s, depth, stack)
        return out

    def _stmt_items(self, f, s, depth, stack):
        k = s["k"]
        if k == "Block":
            return self._block_items(f, s["c"], depth, stack)
        if k == "If":
            slots = s["c"]
            cond = [x for x in slots[:-2] if x is not None][-1]
            t = self._block_items(f, [slots[-2]], depth, stack)
            e = self._block_items(f, [slots[-1]], depth, stack)
            pre = self._expr_items(f, cond, depth, stack)
            if not t and not e:
                return pre
            core, pol = peel_cond(cond)
            if core is not None and core["k"] == "DeclRefExpr" and core.get("dk") == "var" and "bool" in (core.get("t") or "") and \
                    core["n"] in ("ret", "success", "status", "ok"):
                # a test of the accumulated read/write status: the records of the success side are unconditional
                return pre + (t if pol else e)
            return pre + [("IF", cond, t, e, False)]
        if k in ("For", "While", "Do", "ForRange"):
            body = s["c"][0] if k == "Do" else s["c"][-1]
            b = self._block_items(f, [body], depth, stack)
            if not b:
                return []
            return [("LOOP", s, b)]
        if k in ("Return", "DeclStmt", "Assign", "OpCall", "MCall", "Call", "BinOp", "UnOp", "Cast", "VarDecl"):
            return self._expr_items(f, s, depth, stack)
        if k in ("Switch", "Case", "Default", "Label", "Try"):
            out = []
            for c in s.get("c") or []:
                if c is not None:
                    out += self._stmt_items(f, c, depth, stack)
            return out
        return self._expr_items(f, s, depth, stack)

    def _expr_items(self, f, e, depth, stack):
        out = []
        if e is None:
            return out
        for x in walk(e):
            if x["k"] not in CALL_KINDS or not x.get("callee"):
                continue
            cal = x["callee"]
            a = call_args(x)
            if cal in W_PRIMS:
                T = _rec_type(x)
                if cal.endswith("_commentWrite"):
                    out.append(("NLW",))
                elif cal.endswith("_recordWriteVec"):
                    out.append(("WVEC", T, a[2], not _empty_title(a[1])))
                elif cal.endswith("_tableWrite"):
                    out.append(("WVEC", "double", a[3], not _empty_title(a[1])))
                else:
                    out.append(("TOK", T, not _empty_title(a[1]), a[2]))
            elif cal in R_PRIMS:
                T = _rec_type(x)
                if cal.endswith("_recordRead"):
                    out.append(("RTOK", T, a[2]))
                elif cal.endswith("_tableRead"):
                    out.append(("RVEC", "double", a[2]))
                else:
                    out.append(("RVEC", T, a[3]))
            elif cal.endswith(("::_serialize", "::_deserialize", "::serialize", "::deserialize")):
                o = call_obj(x)
                cls = cal.split("::")[0]
                if cls == "ASerializable" and o is not None:
                    t = (o.get("t") or o.get("rt") or "")
                    cls = "obj:" + _norm_type(t.replace("*", "")) if t else "obj"
                out.append(("CALL", cls, x))
            elif x["k"] in ("MCall", "Call") and any("stream" in q for q in _split_sig(x.get("sig") or "")) and depth < 3:
                # helper that receives the stream: inline it (a recursive helper is a repetition of its own records)
                tg = None
                if x["k"] == "MCall":
                    tg = self.prog.method_impl(x.get("cls") or f.cls, cal.split("::")[-1], len(a))
                else:
                    cands = self.prog.fns(cal)
                    tg = cands[0] if cands else None
                if tg is not None and tg.body is not None:
                    if tg.usr in stack or tg.usr == f.usr:
                        out.append(("REC", tg.name))
                    else:
                        sub = Builder(self.prog, self.role)
                        items = sub._block_items(tg, [tg.body], depth + 1, stack + (f.usr,))
                        if any(i[0] == "REC" for i in _flatten(items)):
                            out.append(("LOOP", x, _strip_rec(items)))
                        else:
                            out += items
        return out


def _strip_rec(items):
    """remove the recursive self-calls (and the conditions that only guard them): what is left is one repetition unit"""
    out = []
    for i in items:
        if i[0] == "REC":
            continue
        if i[0] == "IF":
            t, e = _strip_rec(i[2]), _strip_rec(i[3])
            if not t and not e:
                continue
            out.append(("IF", i[1], t, e, False))
        elif i[0] == "LOOP":
            b = _strip_rec(i[2])
            if b:
                out.append(("LOOP", i[1], b))
        else:
            out.append(i)
    return out


def _flatten(items):
    for i in items:
        yield i
        if i[0] == "IF":
            yield from _flatten(i[2])
            yield from _flatten(i[3])
        elif i[0] == "LOOP":
            yield from _flatten(i[2])


def shape(items):
    """token-type shape of an item list (used to compare alternative branches)"""
    out = []
    for i in items:
        if i[0] in ("TOK", "RTOK"):
            out.append(("T", i[1]))
        elif i[0] in ("WVEC", "RVEC"):
            out.append(("V", i[1]))
        elif i[0] == "CALL":
            out.append(("C", i[1]))
        elif i[0] == "IF":
            out.append(("IF", tuple(shape(i[2])), tuple(shape(i[3]))))
        elif i[0] == "LOOP":
            out.append(("L", tuple(shape(i[2]))))
    return out


def normalize(items, consts, role):
    """constant-fold conditions on constant statics, put `if (c) continue` rests on the right side, merge two consecutive IFs
    on complementary conditions, collapse an IF whose branches write the same shape"""
    out = []
    for it in items:
        if it[0] == "IF":
            cond, t, e = it[1], normalize(it[2], consts, role), normalize(it[3], consts, role)
            core, pol = peel_cond(cond)
            if core is not None and core["k"] == "DeclRefExpr" and core.get("d") in consts:
                v = bool(consts[core["d"]]) == pol
                out += (t if v else e)
                continue
            if core is not None and core["k"] == "BinOp" and core.get("op") in ("==", "!=") and core["c"][0] is not None and \
                    core["c"][0].get("d") in consts and core["c"][1] is not None and core["c"][1]["k"] == "Int":
                v = (consts[core["c"][0]["d"]] == core["c"][1]["v"]) == (core["op"] == "==")
                out += (t if (v == pol) else e)
                continue
            if role == "W" and t and e and shape(t) == shape(e):
                out += t
                continue
            out.append(("IF", cond, t, e, False))
        elif it[0] == "LOOP":
            out.append(("LOOP", it[1], normalize(it[2], consts, role)))
        else:
            out.append(it)
    # merge IF(c){A}{} IF(!c){B}{}  ->  IF(c){A}{B}
    merged = []
    for it in out:
        if merged and it[0] == "IF" and merged[-1][0] == "IF" and not merged[-1][3] and not it[3]:
            c1, p1 = peel_cond(merged[-1][1])
            c2, p2 = peel_cond(it[1])
            if c1 is not None and c2 is not None and show(c1) == show(c2) and p1 != p2:
                prev = merged.pop()
                merged.append(("IF", prev[1], prev[2], it[2], False))
                continue
        merged.append(it)
    return merged


def compatible(tw, tr):
    return tw == tr or (tw == "int" and tr == "double") or "?" in (tw, tr)


class Matcher:
    def __init__(self, fw, fr):
        self.fw, self.fr = fw, fr
        self.notes = []
        self.rconst = {}        # reader var (decl id or field name) -> constant value written
        self.nrec = 0

    def _rvar_key(self, v):
        v = _strip_casts(v)
        if v is None:
            return None
        if v["k"] == "DeclRefExpr":
            return ("L", v["d"])
        if v["k"] == "MemberExpr":
            return ("F", v["n"])
        return None

    def _reader_cond_value(self, cond):
        core, pol = peel_cond(cond)
        if core is None:
            return None
        k = self._rvar_key(core)
        if k in self.rconst:
            return bool(self.rconst[k]) == pol
        if core["k"] == "BinOp" and core.get("op") in ("==", "!=", ">", "<", ">=", "<=") and core["c"][1] is not None and core["c"][1]["k"] == "Int":
            k = self._rvar_key(core["c"][0])
            if k in self.rconst:
                a, b = self.rconst[k], core["c"][1]["v"]
                v = {"==": a == b, "!=": a != b, ">": a > b, "<": a < b, ">=": a >= b, "<=": a <= b}[core["op"]]
                return v == pol
        return None

    def _guard_idiom(self, it):
        """reader `if (n > 0) <line read(s)>` / `if (!v.empty())`: the (possibly empty) line is there anyway"""
        if it[0] != "IF" or it[3]:
            return False
        body = it[2]
        if not body or not all(b[0] == "RVEC" for b in body):
            return False
        core, pol = peel_cond(it[1])
        txt = show(core)
        return (core is not None and core["k"] == "BinOp" and core.get("op") in (">", "!=") and show(core["c"][1]) == "0") or "empty" in txt

    def match(self, W, R, bol=True):
        """returns (ok, bol_out, message)"""
        i = j = 0
        while True:
            while i < len(W) and W[i][0] == "NLW":
                bol = True
                i += 1
            if i >= len(W) and j >= len(R):
                return True, bol, None
            # reader items resolvable without consuming writer items
            if j < len(R) and R[j][0] == "IF":
                v = self._reader_cond_value(R[j][1])
                if v is not None:
                    R = R[:j] + (R[j][2] if v else R[j][3]) + R[j + 1:]
                    continue
                if self._guard_idiom(R[j]):
                    R = R[:j] + R[j][2] + R[j + 1:]
                    continue
            if i >= len(W):
                return False, bol, "the reader expects %s but the writer's stream has ended" % describe(R[j])
            if j >= len(R):
                return False, bol, "the writer emits %s that the reader never consumes" % describe(W[i])
            w, r = W[i], R[j]
            if w[0] == "TOK" and r[0] == "RTOK":
                src = _expr_type(w[3]) or w[1]
                if not compatible(w[1], r[1]) and not (w[1] == "double" and r[1] == "int" and src == "int"):
                    return False, bol, "record #%d: written as %s (%s), read as %s (%s)" % (self.nrec + 1, w[1], show(w[3])[:30], r[1], show(r[2])[:30])
                self.nrec += 1
                e = _strip_casts(w[3])
                if e is not None and e["k"] in ("Int", "Bool"):
                    k = self._rvar_key(r[2])
                    if k:
                        self.rconst[k] = e["v"]
                if e is not None and e["k"] == "DeclRefExpr" and e.get("d") in getattr(self, "wconsts", {}):
                    k = self._rvar_key(r[2])
                    if k:
                        self.rconst[k] = self.wconsts[e["d"]]
                bol = w[2]
                i += 1
                j += 1
                continue
            if w[0] == "TOK" and r[0] == "LOOP" and len(r[2]) == 1 and r[2][0][0] == "RTOK":
                # a reader loop with a literal trip count k reads k consecutive values
                k = _literal_trip(r[1])
                if k is not None:
                    cnt = 0
                    ii = i
                    while cnt < k and ii < len(W):
                        if W[ii][0] == "NLW":
                            bol = True
                            ii += 1
                            continue
                        if W[ii][0] != "TOK" or not compatible(W[ii][1], r[2][0][1]):
                            break
                        bol = W[ii][2]
                        cnt += 1
                        ii += 1
                    if cnt != k:
                        return False, bol, "the reader reads %d %s words in a row, the writer emits %d such values there" % (k, r[2][0][1], cnt)
                    self.nrec += k
                    i = ii
                    j += 1
                    continue
            if w[0] == "WVEC" and r[0] == "RVEC":
                if not bol:
                    return False, bol, "the reader reads a whole line of %s at a point where the writer is in the middle of a line" % r[1]
                if not compatible(w[1], r[1]):
                    return False, bol, "vector line written as %s, read as %s" % (w[1], r[1])
                self.nrec += 1
                bol = True
                i += 1
                j += 1
                continue
            if w[0] == "WVEC" and r[0] == "LOOP" and len(r[2]) == 1 and r[2][0][0] == "RTOK":
                if not compatible(w[1], r[2][0][1]):
                    return False, bol, "vector line written as %s, read word by word as %s" % (w[1], r[2][0][1])
                self.nrec += 1
                bol = True
                i += 1
                j += 1
                continue
            if w[0] == "LOOP" and r[0] == "RVEC":
                body = [b for b in w[2] if b[0] != "NLW"]
                if len(body) != 1 or body[0][0] != "TOK" or body[0][2] or len(body) != len(w[2]):
                    return False, bol, "the reader reads one line of values where the writer does not emit one untitled value per iteration"
                if not bol:
                    return False, bol, "the reader reads a whole line at a point where the writer is in the middle of a line"
                if not (i + 1 < len(W) and W[i + 1][0] == "NLW"):
                    return False, bol, "the reader reads a whole line but the writer does not end the line after the values"
                src = _expr_type(body[0][3]) or body[0][1]
                if not compatible(body[0][1], r[1]) and not (body[0][1] == "double" and r[1] == "int" and src == "int"):
                    return False, bol, "values written as %s, line read as %s" % (body[0][1], r[1])
                self.nrec += 1
                bol = False
                i += 1
                j += 1
                continue
            if w[0] == "LOOP" and r[0] == "LOOP":
                ok, b2, msg = self.match(w[2], r[2], bol)
                if not ok:
                    return False, bol, "in the loop `%s` / `%s`: %s" % (_bound(w[1]), _bound(r[1]), msg)
                bol = b2
                i += 1
                j += 1
                continue
            if w[0] == "IF" and r[0] == "IF":
                snap = (dict(self.rconst), self.nrec)
                ok1, b1, m1 = self.match(w[2], r[2], bol)
                ok2, b2, m2 = self.match(w[3], r[3], bol) if ok1 else (False, bol, None)
                if not (ok1 and ok2):
                    self.rconst, self.nrec = dict(snap[0]), snap[1]
                    okx, bx, mx = self.match(w[2], r[3], bol)
                    oky, by, my = self.match(w[3], r[2], bol) if okx else (False, bol, None)
                    if not (okx and oky):
                        return False, bol, "under the condition `%s` / `%s`: %s" % (show(w[1])[:40], show(r[1])[:40], m1 or m2 or mx or my)
                    b1 = bx
                bol = b1
                i += 1
                j += 1
                continue
            if w[0] == "CALL" and r[0] == "CALL":
                if w[1] != r[1] and not (w[1].startswith("obj") and r[1].startswith("obj")):
                    return False, bol, "nested stream of %s written, %s read" % (w[1], r[1])
                self.nrec += 1
                bol = True
                i += 1
                j += 1
                continue
            if w[0] == "IF":
                return False, bol, "the writer emits %s only under the condition `%s`, the reader consumes %s unconditionally" % (
                    describe_list(w[2] or w[3]), show(w[1])[:40], describe(r))
            if r[0] == "IF":
                return False, bol, "the reader consumes %s only under the condition `%s`, the writer emits %s unconditionally" % (
                    describe_list(r[2] or r[3]), show(r[1])[:40], describe(w))
            return False, bol, "record #%d: the writer emits %s where the reader expects %s" % (self.nrec + 1, describe(w), describe(r))


def _literal_trip(n):
    """trip count of `for (i = 0; [ret &&] i < K; i++)` with literal K"""
    if n is None or n["k"] != "For":
        return None
    cond = n["c"][1]
    for x in walk(cond) if cond is not None else []:
        if x["k"] == "BinOp" and x.get("op") == "<" and x["c"][1] is not None and x["c"][1]["k"] == "Int":
            init = n["c"][0]
            zero = init is not None and any(y["k"] == "Int" and y["v"] == 0 for y in walk(init))
            return x["c"][1]["v"] if zero else None
    return None


def _bound(n):
    if n is None:
        return "?"
    if n["k"] == "For":
        return show(n["c"][1])[:40]
    if n["k"] == "While":
        return show(n["c"][0])[:40]
    if n["k"] == "ForRange":
        return "range " + show(n["c"][1])[:30]
    return show(n)[:40]


def describe(it):
    k = it[0]
    if k == "TOK":
        return "one %s value (%s)" % (it[1], show(it[3])[:30])
    if k == "RTOK":
        return "one %s word (%s)" % (it[1], show(it[2])[:30])
    if k == "WVEC":
        return "a line of %s values (%s)" % (it[1], show(it[2])[:30])
    if k == "RVEC":
        return "a line of %s values (count %s)" % (it[1], show(it[2])[:30])
    if k == "CALL":
        return "the stream of %s" % it[1]
    if k == "IF":
        return "a conditional block (%s)" % show(it[1])[:30]
    if k == "LOOP":
        return "a repetition (%s) of %s" % (_bound(it[1]), describe_list(it[2]))
    if k == "NLW":
        return "an end of line"
    return k


def describe_list(items):
    return ", ".join(describe(i) for i in items[:3]) + (" ..." if len(items) > 3 else "")
