"""E6 - abstract evaluation of small pure arithmetic bodies extracted by gsa-extract.

An interpreter over the statement tree of a loop body / small function, parameterised by the value domain:
 - Fraction  : exact rational evaluation on representatives (order-type enumeration, C20)
 - Poly      : polynomials with rational coefficients in named symbols (identity checks, C20 / C03)
It REFUSES (raises Unsupported -> ANALYSIS-BROKEN in the checks) every statement or expression outside its fragment:
locals of arithmetic type, + - * /, comparisons, && || !, if/else, ++ on counters, assignment, continue/break/return.
"""
from fractions import Fraction


class Unsupported(Exception):
    pass


class Continue(Exception):
    pass


class Break(Exception):
    pass


class Return(Exception):
    def __init__(self, v):
        self.v = v


# ------------------------------------------------------------------------------------------ polynomials
class Poly:
    """sparse multivariate polynomial: {((var, exp), ...): Fraction}"""

    def __init__(self, terms=None):
        self.t = {k: v for k, v in (terms or {}).items() if v != 0}

    @staticmethod
    def const(c):
        return Poly({(): Fraction(c)})

    @staticmethod
    def var(name):
        return Poly({((name, 1),): Fraction(1)})

    def __add__(self, o):
        o = o if isinstance(o, Poly) else Poly.const(o)
        r = dict(self.t)
        for k, v in o.t.items():
            r[k] = r.get(k, 0) + v
        return Poly(r)

    __radd__ = __add__

    def __neg__(self):
        return Poly({k: -v for k, v in self.t.items()})

    def __sub__(self, o):
        o = o if isinstance(o, Poly) else Poly.const(o)
        return self + (-o)

    def __rsub__(self, o):
        return (-self) + o

    def __mul__(self, o):
        o = o if isinstance(o, Poly) else Poly.const(o)
        r = {}
        for k1, v1 in self.t.items():
            for k2, v2 in o.t.items():
                d = dict(k1)
                for n, e in k2:
                    d[n] = d.get(n, 0) + e
                k = tuple(sorted(d.items()))
                r[k] = r.get(k, 0) + v1 * v2
        return Poly(r)

    __rmul__ = __mul__

    def __eq__(self, o):
        o = o if isinstance(o, Poly) else Poly.const(o)
        return self.t == o.t

    def __hash__(self):
        return hash(tuple(sorted(self.t.items())))

    def is_const(self):
        return all(k == () for k in self.t)

    def degree(self, var):
        return max([dict(k).get(var, 0) for k in self.t] or [0])

    def coeffs(self, var):
        """{exponent: Poly in the other variables}"""
        out = {}
        for k, v in self.t.items():
            d = dict(k)
            e = d.pop(var, 0)
            kk = tuple(sorted(d.items()))
            out.setdefault(e, {})
            out[e][kk] = out[e].get(kk, 0) + v
        return {e: Poly(t) for e, t in out.items()}

    def __repr__(self):
        if not self.t:
            return "0"
        parts = []
        for k, v in sorted(self.t.items()):
            mon = "*".join(n if e == 1 else "%s^%d" % (n, e) for n, e in k)
            parts.append(("%s*%s" % (v, mon)) if mon else str(v))
        return " + ".join(parts)


class Ratio:
    """numerator / denominator of polynomials (no simplification; equality by cross-multiplication)"""

    def __init__(self, num, den=None):
        self.num = num if isinstance(num, Poly) else Poly.const(num)
        self.den = den if den is not None else Poly.const(1)

    def _c(self, o):
        return o if isinstance(o, Ratio) else Ratio(o if isinstance(o, Poly) else Poly.const(o))

    def __add__(self, o):
        o = self._c(o)
        return Ratio(self.num * o.den + o.num * self.den, self.den * o.den)

    __radd__ = __add__

    def __neg__(self):
        return Ratio(-self.num, self.den)

    def __sub__(self, o):
        return self + (-self._c(o))

    def __rsub__(self, o):
        return self._c(o) - self

    def __mul__(self, o):
        o = self._c(o)
        return Ratio(self.num * o.num, self.den * o.den)

    __rmul__ = __mul__

    def __truediv__(self, o):
        o = self._c(o)
        return Ratio(self.num * o.den, self.den * o.num)

    def same(self, o):
        o = self._c(o)
        return self.num * o.den == o.num * self.den


# ------------------------------------------------------------------------------------------ interpreter
class Interp:
    def __init__(self, env, call_hook=None, symbolic=False):
        self.env = dict(env)          # decl id or name -> value
        self.call_hook = call_hook    # (node, interp) -> value or raise Unsupported
        self.symbolic = symbolic
        self.trace = []

    # ---- expressions
    def ev(self, n):
        if n is None:
            raise Unsupported("empty expression")
        k = n["k"]
        c = n.get("c") or []
        if k == "Int":
            return Fraction(n["v"]) if not self.symbolic else Ratio(Poly.const(n["v"]))
        if k == "Float":
            v = Fraction(repr(n["v"])) if abs(n["v"]) < 1e15 else Fraction(n["v"])
            return v if not self.symbolic else Ratio(Poly.const(v))
        if k == "Bool":
            return bool(n["v"])
        if k == "DeclRefExpr":
            key = n.get("d")
            if key in self.env:
                return self.env[key]
            if n.get("n") in self.env:
                return self.env[n["n"]]
            raise Unsupported("unbound variable " + n.get("n", "?"))
        if k == "Cast":
            return self.ev(c[0])
        if k == "UnOp":
            op = n.get("op")
            if op == "-":
                return -self.ev(c[0])
            if op == "+":
                return self.ev(c[0])
            if op == "!":
                return not self.truth(self.ev(c[0]))
            if op in ("++", "post++"):
                key = c[0].get("d")
                old = self.env[key]
                self.env[key] = old + 1
                return old if op == "post++" else old + 1
            raise Unsupported("unary " + str(op))
        if k == "BinOp":
            op = n.get("op")
            if op == "&&":
                return self.truth(self.ev(c[0])) and self.truth(self.ev(c[1]))
            if op == "||":
                return self.truth(self.ev(c[0])) or self.truth(self.ev(c[1]))
            a, b = self.ev(c[0]), self.ev(c[1])
            if op == "+":
                return a + b
            if op == "-":
                return a - b
            if op == "*":
                return a * b
            if op == "/":
                if not self.symbolic and b == 0:
                    raise ZeroDivisionError()
                return a / b
            if op == "%":
                if self.symbolic:
                    raise Unsupported("% in symbolic mode")
                return Fraction(int(a) % int(b))
            if op in ("<", "<=", ">", ">=", "==", "!="):
                if self.symbolic:
                    raise Unsupported("comparison in symbolic mode")
                return {"<": a < b, "<=": a <= b, ">": a > b, ">=": a >= b, "==": a == b, "!=": a != b}[op]
            raise Unsupported("binary " + str(op))
        if k == "Cond":
            return self.ev(c[1]) if self.truth(self.ev(c[0])) else self.ev(c[2])
        if k in ("Call", "MCall", "OpCall", "Construct"):
            if self.call_hook:
                return self.call_hook(n, self)
            raise Unsupported("call " + str(n.get("callee")))
        raise Unsupported("expression kind " + k)

    def truth(self, v):
        if isinstance(v, bool):
            return v
        if isinstance(v, (int, Fraction)):
            return v != 0
        raise Unsupported("truth of " + repr(v))

    # ---- statements
    def run(self, n):
        if n is None:
            return
        k = n["k"]
        c = n.get("c") or []
        if k == "Block":
            for s in c:
                self.run(s)
        elif k == "DeclStmt":
            for v in c:
                if v is not None and v.get("c"):
                    self.env[v["d"]] = self.ev(v["c"][0])
                elif v is not None:
                    self.env.setdefault(v["d"], None)
        elif k == "Assign":
            op = n.get("op")
            key = c[0].get("d") if c[0] is not None and c[0]["k"] == "DeclRefExpr" else None
            if key is None:
                raise Unsupported("assignment to a non-local")
            v = self.ev(c[1])
            if op == "=":
                self.env[key] = v
            elif op == "+=":
                self.env[key] = self.env[key] + v
            elif op == "-=":
                self.env[key] = self.env[key] - v
            elif op == "*=":
                self.env[key] = self.env[key] * v
            elif op == "/=":
                self.env[key] = self.env[key] / v
            else:
                raise Unsupported("assignment " + str(op))
            self.trace.append(("assign", n, v))
        elif k == "If":
            slots = c
            if n.get("hasinit") or n.get("condvar"):
                raise Unsupported("if with init")
            cond, then, els = slots[-3], slots[-2], slots[-1]
            if self.truth(self.ev(cond)):
                self.run(then)
            else:
                self.run(els)
        elif k == "UnOp":
            self.ev(n)
            self.trace.append(("incr", n, None))
        elif k == "Continue":
            raise Continue()
        elif k == "Break":
            raise Break()
        elif k == "Return":
            raise Return(self.ev(c[0]) if c and c[0] is not None else None)
        elif k == "Null":
            pass
        else:
            # expression statement
            self.ev(n)
