"""E7 - symbolic (rows x cols) typing of Eigen expressions in the dense-matrix kernels.

Dimension symbols: R, C (this), R_<x>, C_<x> (another dense matrix x), L_<v> (length of vector v), integers.
Every product / sum / non-resizable assignment yields equality constraints between symbols; boolean parameters
(transpose flags) are case-split.  Facts are collected per function and interpreted by c11.py."""
from facts import call_args, call_obj, show, walk, CALL_KINDS
from e1_paths import peel_cond


class Shapes:
    def __init__(self, f, assume=None):
        self.f = f
        self.assume = assume or {}      # decl id of bool parameter -> value
        self.maps = {}                  # decl id -> (rows, cols)
        self.cons = []                  # (a, b, node, why)
        self.notes = []

    # ---- dimensions
    def dim(self, e):
        if e is None:
            return "?"
        k = e["k"]
        if k == "Int":
            return e["v"]
        if k == "Cast":
            return self.dim(e["c"][0])
        if k == "MCall":
            short = (e.get("callee") or "").split("::")[-1]
            o = call_obj(e)
            who = "" if (o is None or o["k"] == "This") else "_" + show(o)
            if short in ("getNRows", "rows"):
                return "R" + who
            if short in ("getNCols", "cols"):
                return "C" + who
            if short in ("size", "length"):
                # the length of a local vector built with an explicit size is that size
                if o is not None and o["k"] == "DeclRefExpr" and o.get("dk") == "var":
                    for x in self.f.walk():
                        if x["k"] == "VarDecl" and x.get("d") == o["d"] and x.get("c") and x["c"][0] is not None and \
                                x["c"][0]["k"] == "Construct" and (x["c"][0].get("c") or []):
                            a0 = x["c"][0]["c"][0]
                            if a0 is not None and a0["k"] != "DefaultArg":
                                return self.dim(a0)
                return "L_" + (show(o) if o is not None else "this")
            if short == "getNTotal":
                return "RC" + who
        if k == "Cond":
            c = e["c"]
            core, pol = peel_cond(c[0])
            if core is not None and core["k"] == "DeclRefExpr" and core.get("d") in self.assume:
                v = self.assume[core["d"]] == pol
                return self.dim(c[1] if v else c[2])
        if k == "DeclRefExpr":
            from e1_paths import single_def
            d = single_def(self.f, e["d"]) if e.get("dk") == "var" else None
            if d is not None:
                return self.dim(d)
            return "V_" + e["n"]
        if k == "MemberExpr":
            if e["n"] == "_nRows":
                return "R"
            if e["n"] == "_nCols":
                return "C"
        return "E(" + show(e)[:30] + ")"

    # ---- shapes
    def shape(self, e):
        """(rows, cols) of an Eigen-valued expression, 'scalar', or None when unknown"""
        if e is None:
            return None
        k = e["k"]
        c = e.get("c") or []
        t = e.get("t") or e.get("rt") or ""
        if k in ("Int", "Float"):
            return "scalar"
        if k == "MemberExpr" and e["n"] == "_eigenMatrix":
            b = c[0] if c else None
            if b is None or b["k"] == "This":
                return ("R", "C")
            x = show(b)
            return ("R_" + x, "C_" + x)
        if k == "DeclRefExpr":
            if e.get("d") in self.maps:
                return self.maps[e["d"]]
            if "double" == (e.get("t") or "").replace("const ", "").strip() or (e.get("t") or "") in ("int", "double"):
                return "scalar"
            return None
        if k == "Cast":
            return self.shape(c[0]) if c else None
        if k == "UnOp" and e.get("op") == "-":
            return self.shape(c[0])
        if k == "BinOp":
            a, b = self.shape(c[0]), self.shape(c[1])
            if a == "scalar" and b == "scalar":
                return "scalar"
            return a if a != "scalar" else b
        if k == "MCall":
            short = (e.get("callee") or "").split("::")[-1]
            s = self.shape(c[0]) if c else None
            if short in ("transpose", "adjoint"):
                return (s[1], s[0]) if isinstance(s, tuple) else None
            if short == "asDiagonal":
                if isinstance(s, tuple):
                    n = s[0] if s[1] == 1 else s[1]
                    return (n, n)
                return None
            if short == "diagonal":
                if isinstance(s, tuple):
                    self.notes.append(("diagonal-of", s, e))
                    return (s[0], 1)
                return None
            if short == "col":
                return (s[0], 1) if isinstance(s, tuple) else None
            if short == "row":
                return (1, s[1]) if isinstance(s, tuple) else None
            if short == "inverse":
                if isinstance(s, tuple):
                    self.cons.append((s[0], s[1], e, "inverse() of a non-square matrix"))
                return s
            if short in ("noalias", "array", "matrix", "eval", "cwiseAbs", "cwiseInverse", "cwiseSqrt", "derived", "const_cast_derived"):
                return s
            if short in ("sum", "trace", "norm", "minCoeff", "maxCoeff", "determinant", "dot", "squaredNorm"):
                return "scalar"
            if short in ("getNRows", "getNCols", "size"):
                return "scalar"
            return None
        if k == "Call":
            short = (e.get("callee") or "").split("::")[-1]
            if short == "Constant" and c:
                if len(c) == 2:
                    return (self.dim(c[0]), 1)
                if len(c) == 3:
                    return (self.dim(c[0]), self.dim(c[1]))
            if short in ("Zero", "Ones", "Identity") and c:
                return (self.dim(c[0]), self.dim(c[1]) if len(c) > 1 else 1)
            return None
        if k == "Construct":
            # copy / conversion of an Eigen expression
            if len(c) == 1:
                return self.shape(c[0])
            return None
        if k == "OpCall":
            op = e.get("op")
            if op == "*" and len(c) == 2:
                a, b = self.shape(c[0]), self.shape(c[1])
                if a == "scalar":
                    return b
                if b == "scalar":
                    return a
                if isinstance(a, tuple) and isinstance(b, tuple):
                    self.cons.append((a[1], b[0], e, "product (%s x %s) * (%s x %s)" % (a[0], a[1], b[0], b[1])))
                    return (a[0], b[1])
                return None
            if op in ("+", "-") and len(c) == 2:
                a, b = self.shape(c[0]), self.shape(c[1])
                if isinstance(a, tuple) and isinstance(b, tuple):
                    self.cons.append((a[0], b[0], e, "sum of (%s x %s) and (%s x %s)" % (a + b)))
                    self.cons.append((a[1], b[1], e, "sum of (%s x %s) and (%s x %s)" % (a + b)))
                return a if isinstance(a, tuple) else b
            if op == "-" and len(c) == 1:
                return self.shape(c[0])
            if op == "/" and len(c) == 2:
                return self.shape(c[0])
            if op == "()" and c:
                return "scalar"
            if op == "[]" and c:
                return "scalar"
            return None
        return None

    # ---- statements
    def run(self):
        self._stmt(self.f.body)
        return self

    def _stmt(self, n):
        if n is None:
            return
        k = n["k"]
        c = n.get("c") or []
        if k == "Block":
            for s in c:
                self._stmt(s)
        elif k == "If":
            cond = [x for x in c[:-2] if x is not None][-1]
            core, pol = peel_cond(cond)
            if core is not None and core["k"] == "DeclRefExpr" and core.get("d") in self.assume:
                v = self.assume[core["d"]] == pol
                self._stmt(c[-2] if v else c[-1])
            else:
                self._stmt(c[-2])
                self._stmt(c[-1])
        elif k in ("For", "While", "Do", "ForRange", "Switch", "Case", "Default", "Label", "Try", "Catch"):
            for s in c:
                if s is not None and s.get("k") in ("Block", "If", "For", "While", "DeclStmt", "OpCall", "Assign", "MCall", "Return", "Do"):
                    self._stmt(s)
        elif k == "DeclStmt":
            for v in c:
                if v is None or not v.get("c"):
                    continue
                init = v["c"][0]
                t = v.get("t") or ""
                if "Eigen::Map" in t and init["k"] == "Construct":
                    a = init.get("c") or []
                    a = [x for x in a if x is not None and x["k"] != "DefaultArg"]
                    if len(a) == 2:
                        length = self.dim(a[1])
                        # a Map over a RAW pointer parameter: the length given is only a label (the pointee has no size of its
                        # own; Eigen evaluates from the other operand in release builds) -> free length symbol
                        if a[0]["k"] == "DeclRefExpr" and a[0].get("dk") == "parm" and (a[0].get("t") or "").rstrip().endswith("*"):
                            length = "L_" + a[0]["n"]
                        self.maps[v["d"]] = (length, 1)
                        self.notes.append(("map", v, a[0], length))
                    elif len(a) >= 3:
                        self.maps[v["d"]] = (self.dim(a[1]), self.dim(a[2]))
                        self.notes.append(("map", v, a[0], (self.dim(a[1]), self.dim(a[2]))))
                elif "Eigen::" in t:
                    s = self.shape(init)
                    if isinstance(s, tuple):
                        self.maps[v["d"]] = s
                else:
                    self.shape(init)
        elif k == "OpCall" and n.get("op") in ("=", "+=", "-="):
            lhs, rhs = c[0], c[1]
            ls, rs = self.shape(lhs), self.shape(rhs)
            resizable = lhs is not None and lhs["k"] == "MemberExpr" and lhs["n"] == "_eigenMatrix"
            if lhs is not None and lhs["k"] == "MCall" and (lhs.get("callee") or "").endswith("::noalias"):
                inner = call_obj(lhs)
                resizable = inner is not None and inner["k"] == "MemberExpr" and inner["n"] == "_eigenMatrix"
            if n.get("op") != "=":
                resizable = False
            if isinstance(ls, tuple) and isinstance(rs, tuple) and not resizable:
                if 1 in (ls[0], ls[1]) and 1 in (rs[0], rs[1]):
                    # vector <- vector: Eigen transposes automatically; only the lengths must agree
                    la = ls[0] if ls[1] == 1 else ls[1]
                    ra = rs[0] if rs[1] == 1 else rs[1]
                    self.cons.append((la, ra, n, "assignment of a vector of %s to a vector of %s" % (ra, la)))
                else:
                    self.cons.append((ls[0], rs[0], n, "assignment (%s x %s) <- (%s x %s)" % (ls + rs)))
                    self.cons.append((ls[1], rs[1], n, "assignment (%s x %s) <- (%s x %s)" % (ls + rs)))
        elif k == "Return":
            if c and c[0] is not None:
                self.shape(c[0])
        else:
            self.shape(n)
