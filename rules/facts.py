"""Fact production and loading: runs gsa-extract on units of /repo's *current* working tree
and gives the rules an indexed view (functions, statement trees, CFG, classes)."""
import hashlib
import json
import os
import re
import shutil
import subprocess
import sys
import time
from concurrent.futures import ThreadPoolExecutor

VERIF = os.path.dirname(os.path.dirname(os.path.abspath(__file__)))
REPO = os.environ.get("GSA_REPO", "/repo")
WORK = os.path.join(VERIF, ".work")
BIN = os.path.join(WORK, "bin", "gsa-extract")
GEN = os.path.join(WORK, "gen")
RESOURCE_DIR = "/usr/lib/llvm-14/lib/clang/14.0.6"
WITNESS = os.path.join(VERIF, "witness")


class AnalysisBroken(Exception):
    """The analysis could not be carried out (parse failure, vanished anchor, instance floor)."""


def flags():
    return [
        "-std=gnu++20", "-fopenmp", "-UNDEBUG", "-w", "-DNLOPT_DLL", "-DOPENMP", "-Dshared_EXPORTS",
        "-I" + os.path.join(REPO, "include"), "-I" + GEN,
        "-I" + os.path.join(REPO, "3rd-party/csparse"), "-I" + os.path.join(REPO, "3rd-party/gmtsph"),
        "-isystem", "/usr/include/eigen3", "-resource-dir", RESOURCE_DIR,
    ]


def ensure_gen():
    """The two cmake-generated headers, produced here so that no build directory is needed."""
    os.makedirs(GEN, exist_ok=True)
    exp = os.path.join(GEN, "gstlearn_export.hpp")
    if not os.path.exists(exp):
        with open(exp, "w") as f:
            f.write("#pragma once\n#define GSTLEARN_EXPORT\n#define GSTLEARN_NO_EXPORT\n"
                    "#define GSTLEARN_DEPRECATED\n#define GSTLEARN_DEPRECATED_EXPORT\n"
                    "#define GSTLEARN_DEPRECATED_NO_EXPORT\n")
    ver = os.path.join(GEN, "version.h")
    src = os.path.join(REPO, "version.h.in")
    txt = open(src).read() if os.path.exists(src) else ""
    txt = re.sub(r"@gstlearn_VERSION_NUMBER@", "0", txt)
    txt = re.sub(r"@[A-Za-z_]+@", "0", txt)
    with open(ver, "w") as f:
        f.write(txt or "#pragma once\n")


def all_units():
    """Every unit of the library build (src/all_sources.cmake)."""
    lst = os.path.join(REPO, "src", "all_sources.cmake")
    units = []
    for line in open(lst):
        m = re.match(r"\s*([\w/\-\.]+\.cpp)\s*$", line)
        if m:
            units.append(os.path.join(REPO, "src", m.group(1)))
    return units


def fact_path(outdir, unit):
    return os.path.join(outdir, unit.replace("/", "@") + ".json")


def _run_one(args):
    unit, outdir, headers, summary = args
    cmd = [BIN, "--root", REPO, "--out", outdir, "--extra-root", WITNESS]
    if headers:
        cmd.append("--headers")
    if summary:
        cmd.append("--summary")
    cmd += [unit, "--"] + flags() + ["-I" + WITNESS]
    t0 = time.time()
    p = subprocess.run(cmd, stdout=subprocess.PIPE, stderr=subprocess.PIPE, text=True)
    return unit, p.returncode, p.stderr[-2000:], time.time() - t0


def extract(units, tag, headers=False, summary=False, jobs=None):
    """Extract facts for `units` (absolute paths) into a fresh directory; returns the directory.
    Nothing is cached between runs: the directory is wiped first."""
    if not os.path.exists(BIN):
        raise AnalysisBroken("extractor not built: run `make -C /verif tool`")
    ensure_gen()
    outdir = os.path.join(WORK, "facts", tag + os.environ.get("GSA_WORKTAG", ""))     # GSA_WORKTAG: concurrent runs (selftests, seeded matrix)
    shutil.rmtree(outdir, ignore_errors=True)
    os.makedirs(outdir)
    missing = [u for u in units if not os.path.exists(u)]
    if missing:
        raise AnalysisBroken("anchor unit(s) missing: " + ", ".join(missing))
    jobs = jobs or min(16, os.cpu_count() or 4)
    with ThreadPoolExecutor(max_workers=jobs) as ex:
        res = list(ex.map(_run_one, [(u, outdir, headers, summary) for u in units]))
    bad = [(u, err) for (u, rc, err, _) in res if rc != 0]
    if bad:
        raise AnalysisBroken("units failed to parse: " + "; ".join(u + ": " + e.strip().splitlines()[-1] if e.strip() else u for u, e in bad))
    return outdir


def file_hash(path):
    h = hashlib.sha256()
    with open(path, "rb") as f:
        h.update(f.read())
    return h.hexdigest()[:16]


# ------------------------------------------------------------------------------------------
# Indexed view
# ------------------------------------------------------------------------------------------

CALL_KINDS = ("Call", "MCall", "OpCall", "Construct", "ICall", "PMCall")


def walk(node):
    """Pre-order walk of a statement tree (skips null children)."""
    stack = [node]
    while stack:
        n = stack.pop()
        if n is None:
            continue
        yield n
        c = n.get("c")
        if c:
            stack.extend(reversed(c))
        if n.get("init") is not None and isinstance(n.get("init"), dict):
            pass


class Func:
    def __init__(self, d, unit):
        self.d = d
        self.unit = unit
        self.name = d["name"]
        self.short = d["short"]
        self.usr = d["usr"]
        self.file = d["file"]
        self.line = d["line"]
        self.cls = d.get("cls", "")
        self.kind = d["kind"]
        self.params = d["params"]
        self.ret = d["ret"]
        self.body = d.get("body")
        self.cfg = d.get("cfg")
        self._nodes = None
        self._parent = None

    def roots(self):
        r = []
        for i in self.d.get("inits", []):
            if i.get("init"):
                r.append(i["init"])
        if self.body:
            r.append(self.body)
        return r

    @property
    def nodes(self):
        if self._nodes is None:
            self._nodes = {}
            self._parent = {}
            for r in self.roots():
                for n in walk(r):
                    self._nodes[n["i"]] = n
                    for c in n.get("c", []) or []:
                        if c is not None:
                            self._parent[c["i"]] = n["i"]
        return self._nodes

    def parent(self, n):
        self.nodes
        p = self._parent.get(n["i"])
        return self._nodes[p] if p is not None else None

    def ancestors(self, n):
        p = self.parent(n)
        while p is not None:
            yield p
            p = self.parent(p)

    def walk(self):
        for r in self.roots():
            yield from walk(r)

    def calls(self, callee=None):
        for n in self.walk():
            if n["k"] in CALL_KINDS:
                if callee is None or n.get("callee") == callee or (
                        isinstance(callee, (set, frozenset, tuple, list)) and n.get("callee") in callee):
                    yield n

    def loc(self, n=None):
        rel = os.path.relpath(self.file, REPO) if self.file.startswith(REPO) else self.file
        return "%s:%d" % (rel, (n or {}).get("l", self.line) if n is not None else self.line)

    def sig(self):
        return "%s(%s)" % (self.name, ",".join(p["t"] for p in self.params))


class Program:
    def __init__(self):
        self.funcs = []            # Func
        self.by_name = {}          # qualified name -> [Func]
        self.by_usr = {}
        self.classes = {}          # name -> dict
        self.globals = []
        self.enums = {}
        self.units = []

    def load_dir(self, d):
        for fn in sorted(os.listdir(d)):
            if fn.endswith(".json"):
                self.load(os.path.join(d, fn))
        return self

    def load(self, path):
        data = json.load(open(path))
        if data.get("errors"):
            raise AnalysisBroken("parse errors in " + data["unit"])
        self.units.append(data["unit"])
        for fd in data["functions"]:
            if fd["usr"] in self.by_usr and fd["usr"]:
                continue
            f = Func(fd, data["unit"])
            self.funcs.append(f)
            self.by_name.setdefault(f.name, []).append(f)
            self.by_usr[f.usr] = f
        for c in data["classes"]:
            self.classes.setdefault(c["name"], c)
        for g in data["globals"]:
            g["unit"] = data["unit"]
            self.globals.append(g)
        for e in data["enums"]:
            self.enums.setdefault(e["name"], e)

    def fn(self, name, nparams=None, required=True):
        """The unique function of that qualified name (optionally by parameter count)."""
        c = self.by_name.get(name, [])
        if nparams is not None:
            c = [f for f in c if len(f.params) == nparams]
        if len(c) == 1:
            return c[0]
        if not c:
            if required:
                raise AnalysisBroken("anchor function not found: " + name)
            return None
        raise AnalysisBroken("anchor function ambiguous: %s (%d overloads)" % (name, len(c)))

    def fns(self, name):
        return list(self.by_name.get(name, []))

    # ---- class hierarchy ----
    def bases(self, cls, acc=None):
        acc = acc if acc is not None else []
        for b in self.classes.get(cls, {}).get("bases", []):
            if b not in acc:
                acc.append(b)
                self.bases(b, acc)
        return acc

    def derived(self, cls):
        out = []
        for n, c in self.classes.items():
            if cls in self.bases(n):
                out.append(n)
        return out

    def method_impl(self, cls, short, nparams=None):
        """Resolve the body that a call of `short` on an object of dynamic class `cls` runs
        (looks up the class then its bases, depth first)."""
        for c in [cls] + self.bases(cls):
            cands = [f for f in self.by_name.get(c + "::" + short, [])]
            if nparams is not None:
                cands = [f for f in cands if len(f.params) == nparams]
            if cands:
                return cands[0]
        return None


# ------------------------------------------------------------------------------------------
# Rendering expressions (for reports and for same-expression matching)
# ------------------------------------------------------------------------------------------

def show(n, depth=0):
    if not n:
        return ""
    if depth > 12:
        return "…"
    k = n["k"]
    c = n.get("c") or []
    s = lambda x: show(x, depth + 1)
    if k == "DeclRefExpr":
        return n["n"]
    if k == "MemberExpr":
        b = c[0] if c else None
        if b is None or (b["k"] == "This"):
            return n["n"]
        return s(b) + ("->" if n.get("arrow") else ".") + n["n"]
    if k == "This":
        return "this"
    if k in ("Int", "Float"):
        v = n.get("v")
        return repr(v) if k == "Float" else str(v)
    if k == "Bool":
        return "true" if n.get("v") else "false"
    if k == "Str":
        return json.dumps(n.get("v", ""))
    if k == "Char":
        return "'%s'" % chr(n.get("v", 63)) if 32 <= n.get("v", 0) < 127 else str(n.get("v"))
    if k == "Null":
        return "nullptr"
    if k == "MCall":
        obj = c[0] if c else None
        short = (n.get("callee") or "?").split("::")[-1]
        args = ", ".join(s(a) for a in c[1:])
        if obj is None or obj["k"] == "This":
            return "%s(%s)" % (short, args)
        return "%s%s%s(%s)" % (s(obj), "->" if n.get("arrow") else ".", short, args)
    if k == "Call":
        return "%s(%s)" % ((n.get("callee") or "?").split("::")[-1] if "::" not in (n.get("callee") or "") else n.get("callee"),
                           ", ".join(s(a) for a in c))
    if k == "OpCall":
        op = n.get("op", "?")
        if op == "[]" and len(c) == 2:
            return "%s[%s]" % (s(c[0]), s(c[1]))
        if op == "()" and c:
            return "%s(%s)" % (s(c[0]), ", ".join(s(a) for a in c[1:]))
        if len(c) == 2:
            return "%s %s %s" % (s(c[0]), op, s(c[1]))
        if len(c) == 1:
            return "%s%s" % (op, s(c[0]))
        return "operator%s(...)" % op
    if k == "Construct":
        if n.get("copy") and len(c) == 1:
            return s(c[0])
        t = n.get("t", "?")
        return "%s(%s)" % (t, ", ".join(s(a) for a in c))
    if k in ("ICall", "PMCall"):
        return "(%s)(%s)" % (s(c[0]) if c else "?", ", ".join(s(a) for a in c[1:]))
    if k in ("BinOp", "Assign"):
        return "%s %s %s" % (s(c[0]), n.get("op"), s(c[1]))
    if k == "UnOp":
        op = n.get("op", "")
        if op.startswith("post"):
            return s(c[0]) + op[4:]
        return op + s(c[0])
    if k == "Index":
        return "%s[%s]" % (s(c[0]), s(c[1]))
    if k == "Cond":
        return "%s ? %s : %s" % (s(c[0]), s(c[1]), s(c[2]))
    if k == "Cast":
        return "(%s)%s" % (n.get("t"), s(c[0]) if c else "")
    if k == "Return":
        return "return " + (s(c[0]) if c else "")
    if k == "VarDecl":
        return "%s %s%s" % (n.get("t"), n["n"], (" = " + s(c[0])) if c else "")
    if k == "DeclStmt":
        return "; ".join(s(x) for x in c)
    if k == "New":
        return "new %s" % n.get("t")
    if k == "Delete":
        return "delete " + (s(c[0]) if c else "")
    if k == "DefaultArg":
        return "<default>"
    if k == "InitList":
        return "{%s}" % ", ".join(s(x) for x in c)
    if k == "Throw":
        return "throw " + (s(c[0]) if c and c[0] else "")
    return "<%s>" % k


def is_call(n, names):
    """n is a call node whose resolved callee qualified name is in names (str or collection)."""
    if n is None or n["k"] not in CALL_KINDS:
        return False
    cal = n.get("callee")
    if isinstance(names, str):
        return cal == names
    return cal in names


def call_args(n):
    """Explicit arguments of a call node (the object of a member call excluded)."""
    c = n.get("c") or []
    if n["k"] == "MCall":
        return c[1:]
    if n["k"] in ("ICall", "PMCall"):
        return c[1:]
    if n["k"] == "OpCall" and n.get("member"):
        return c[1:]
    return c


def call_obj(n):
    c = n.get("c") or []
    if n["k"] == "MCall" or (n["k"] == "OpCall" and n.get("member")):
        return c[0] if c else None
    return None


def refs(n, decl_only=True):
    """All variables (decl ids) referenced inside the tree n."""
    out = set()
    for x in walk(n):
        if x["k"] == "DeclRefExpr" and x.get("dk") in ("var", "parm", "slocal", "gvar", "smember"):
            out.add(x["d"])
        elif x["k"] == "MemberExpr" and x.get("mk") == "field":
            out.add(("F", x["n"]))
    return out


def extract_headers(tag):
    """All inline / header-defined functions of /repo/include, once: a generated unit that includes every
    repository header (a header that cannot be combined with the others is left out and reported)."""
    hs = []
    inc = os.path.join(REPO, "include")
    for root, _, fs in os.walk(inc):
        for f in fs:
            if f.endswith(".hpp") or f.endswith(".h"):
                hs.append(os.path.relpath(os.path.join(root, f), inc))
    hs.sort()
    ensure_gen()
    excluded = []
    unit = os.path.join(GEN, "all_headers_%s%s.cpp" % (tag, os.environ.get("GSA_WORKTAG", "")))
    for attempt in range(6):
        with open(unit, "w") as f:
            f.write("".join('#include "%s"\n' % h for h in hs if h not in excluded))
        outdir = os.path.join(WORK, "facts", tag + os.environ.get("GSA_WORKTAG", ""))
        shutil.rmtree(outdir, ignore_errors=True)
        os.makedirs(outdir)
        u, rc, err, _ = _run_one((unit, outdir, True, False))
        if rc == 0:
            return outdir, excluded
        bad = set(re.findall(re.escape(inc) + r"/([\w/\.]+):\d+:\d+: error", err))
        bad -= set(excluded)
        if not bad:
            raise AnalysisBroken("repository headers do not parse: " + err.strip()[-300:])
        excluded += sorted(bad)
    raise AnalysisBroken("too many repository headers cannot be combined: " + ", ".join(excluded))
