"""E1 gate rules shared by C05 / C06 / C12: a sample rank `v` is consumed (its values read, the sample appended to
a work list, its pair accumulated) only on paths that passed the required gates for *that* variable since its last
definition.  A gate is a branch whose condition tests the variable; the rule deletes the pass edges and the
consumption must become unreachable from every definition of the variable."""
from e1_paths import CFG, peel_cond, single_def
from facts import CALL_KINDS, call_args, call_obj, show, walk

ACTIVE_CALLS = ("isActive", "isActiveAndDefined", "getSelection")
RANK_READS = {"getArray", "getCoordinate", "getLocVariable", "getZVariable", "getSampleAsSPInPlace", "getSampleAsSTInPlace",
              "getSampleAsSP", "getWeight", "getFromLocator", "getSimvar", "getValue", "getSampleCoordinates",
              "getSampleCoordinatesInPlace", "getSampleCoordinatesAsSP", "getSampleCoordinatesAsSPInPlace", "getVarianceError",
              "getLocVariables", "getSampleLocators", "getValueByColIdx", "getDistance", "getDistance1D", "getCosineToDirection",
              "getSlopeDistance", "hasLargerDimension", "isIsotopic", "getArrayBySample", "getLocVariables"}
RANK_WRITES = {"setArray", "setLocVariable", "setZVariable", "setSimvar", "updSimvar", "updArray", "setValue", "setFromLocator",
               "setCoordinate", "setLocVariables", "setArrayBySample", "setValueByColIdx", "updLocVariable"}


def is_db_recv(o):
    if o is None:
        return False
    t = (o.get("t") or o.get("rt") or "")
    s = show(o)
    return "Db" in t or s.startswith(("db", "_db", "getDb")) or "Db" in s or "dbin" in s or "dbout" in s or s in ("this",)


def sample_uses(f, names):
    """{(decl id, var name): [(call node, receiver string)]}: calls of rank accessors (short name in names) on a data base
    with a plain local variable as one of their arguments"""
    out = {}
    for n in f.walk():
        if n["k"] != "MCall":
            continue
        short = (n.get("callee") or "").split("::")[-1]
        if short not in names:
            continue
        cls = n.get("cls") or ""
        if not cls.startswith("Db"):
            continue
        o = call_obj(n)
        recv = "this" if (o is None or o["k"] == "This") else show(o)
        for a in call_args(n):
            if a is not None and a["k"] == "DeclRefExpr" and a.get("dk") in ("var", "parm") and "int" in (a.get("t") or ""):
                out.setdefault((a["d"], a["n"]), []).append((n, recv))
                break       # first int variable argument = the rank in all these accessors
    return out


class GateCtx:
    def __init__(self, f):
        self.f = f
        self.g = CFG(f)
        self._presence = None

    def presence_flags(self):
        """locals (decl ids) that hold `db->hasLocVariable(ELoc::SEL)`-like presence tests: when false there is no selection,
        every sample is active"""
        if self._presence is None:
            self._presence = {}
            for n in self.f.walk():
                if n["k"] == "VarDecl" and n.get("c") and n["c"][0] is not None:
                    i = n["c"][0]
                    if i["k"] == "MCall" and (i.get("callee") or "").split("::")[-1] in ("hasLocVariable", "hasSelection", "hasLocator"):
                        txt = show(i)
                        if "SEL" in txt or "Selection" in txt:
                            self._presence[n["d"]] = "SEL"
                        elif "W" in txt.split("(")[-1]:
                            self._presence[n["d"]] = "W"
        return self._presence

    def active_arrays(self):
        """locals holding a per-sample activity vector (getActiveArray / getSelections)"""
        out = set()
        for n in self.f.walk():
            if n["k"] == "VarDecl" and n.get("c") and n["c"][0] is not None:
                txt = show(n["c"][0])
                if "getActiveArray" in txt or "getSelections" in txt:
                    out.add(n["d"])
        return out

    def defs_of(self, d):
        """nodes that (re)define local variable d"""
        out = []
        for n in self.f.walk():
            if n["k"] == "VarDecl" and n.get("d") == d:
                out.append(n)
            elif n["k"] == "Assign":
                l = n["c"][0]
                if l is not None and l["k"] == "DeclRefExpr" and l.get("d") == d:
                    out.append(n)
            elif n["k"] == "UnOp" and n.get("op") in ("++", "--", "post++", "post--"):
                x = n["c"][0]
                if x is not None and x["k"] == "DeclRefExpr" and x.get("d") == d:
                    out.append(n)
        return out

    def pass_edges(self, matcher):
        """edges asserting the gate: matcher(core) -> True (gate holds when core is true), False (gate holds when core
        is false), or None"""
        out = set()
        g = self.g
        for b in g.blocks.values():
            if len(b["s"]) != 2:
                continue
            c = g.cond(b["b"])
            if c is None:
                continue
            core, pol = peel_cond(c)
            if core is None:
                continue
            m = matcher(core)
            if m is None and core["k"] == "DeclRefExpr" and core.get("dk") == "var":
                d = single_def(self.f, core["d"])
                if d is not None and d["k"] in CALL_KINDS:
                    m = matcher(d)
            if m is None:
                continue
            k = 0 if (m == pol) else 1
            out.add((b["b"], k))
        return out

    def array_sources(self):
        """activity vector local -> receiver string of the getActiveArray / getSelections call that fills it"""
        out = {}
        for n in self.f.walk():
            if n["k"] == "VarDecl" and n.get("c") and n["c"][0] is not None:
                for y in walk(n["c"][0]):
                    if y["k"] == "MCall" and (y.get("callee") or "").split("::")[-1] in ("getActiveArray", "getSelections"):
                        o = call_obj(y)
                        out[n["d"]] = "this" if (o is None or o["k"] == "This") else show(o)
        return out

    def other_db(self, a, b):
        """True when a and b are known to name two different data bases: two different parameters / members of the
        function (locals may alias, calls are not compared)"""
        if a is None or b is None or a == b:
            return False
        names = {p["n"] for p in self.f.params}
        plain = lambda s: s in names or (s.startswith("_") and s.replace("_", "").isalnum())
        return plain(a) and plain(b)

    def active_matcher(self, d, db=None):
        pres = self.presence_flags()
        arrs = self.active_arrays()
        srcs = self.array_sources() if db is not None else {}

        def m(core):
            if core["k"] == "MCall" and (core.get("callee") or "").split("::")[-1] in ACTIVE_CALLS:
                if any(a is not None and a["k"] == "DeclRefExpr" and a.get("d") == d for a in call_args(core)):
                    o = call_obj(core)
                    if db is not None and o is not None and self.other_db(show(o), db):
                        return None          # the activity of ANOTHER data base says nothing about this sample
                    return True
            if core["k"] in ("OpCall", "Index") and len(core.get("c") or []) == 2:
                base, idx = core["c"]
                if base is not None and base["k"] == "DeclRefExpr" and base.get("d") in arrs and \
                        idx is not None and idx["k"] == "DeclRefExpr" and idx.get("d") == d:
                    if db is not None and self.other_db(srcs.get(base["d"]), db):
                        return None
                    return True
            if core["k"] == "DeclRefExpr" and pres.get(core.get("d")) == "SEL":
                return False          # no selection at all: vacuous pass
            return None
        return m

    def call_matcher(self, shorts, d, truth, recv=None):
        """gate = call of one of `shorts` with variable d among its arguments (d None: any) having value `truth`"""
        def m(core):
            if core["k"] in ("MCall", "Call") and (core.get("callee") or "").split("::")[-1] in shorts:
                if d is None or any(a is not None and a["k"] == "DeclRefExpr" and a.get("d") == d for a in call_args(core)):
                    if recv is None or (call_obj(core) is not None and show(call_obj(core)) == recv):
                        return truth
            return None
        return m

    def ungated_path(self, d, site, passes, starts=None):
        """witness of a path from a definition of d (or the function entry for parameters) to `site` avoiding pass edges"""
        g = self.g
        eo = lambda blk, k, s_: (blk["b"], k) not in passes
        tgt = lambda x: x["i"] == site["i"]
        if starts is None:
            starts = [g.after(n) for n in self.defs_of(d)]
            starts = [s for s in starts if s is not None]
            if not starts:
                starts = [g.entry_pos()]
        for st in starts:
            w = g.search_consistent(st, is_target=tgt, edge_ok=eo)
            if w is not None:
                return w
        return None

    def gated(self, d, site, matcher_of, depth=0):
        """None when `site` is gated for variable d: every definition D of d either reaches the site only through a pass
        edge of the gate on d, or computes d from other locals r and D itself is gated for r (the gate was applied to the
        variable d is derived from).  Otherwise a witness path."""
        passes = self.pass_edges(matcher_of(d))
        defs = self.defs_of(d)
        if not defs:
            return self.ungated_path(d, site, passes)
        for D in defs:
            st = self.g.after(D)
            if st is None:
                continue
            w = self.ungated_path(d, site, passes, starts=[st])
            if w is None:
                continue
            # derived definition?
            rhs = None
            if D["k"] == "VarDecl" and D.get("c"):
                rhs = D["c"][0]
            elif D["k"] == "Assign":
                rhs = D["c"][1]
            srcs = []
            if rhs is not None and depth < 3:
                for x in walk(rhs):
                    if x["k"] == "DeclRefExpr" and x.get("dk") == "var" and x.get("d") != d and "int" in (x.get("t") or "") and \
                            x["d"] not in [y["d"] for y in srcs]:
                        srcs.append(x)
            ok = False
            for r in srcs:
                if self.gated(r["d"], D, matcher_of, depth + 1) is None:
                    ok = True
                    break
            if not ok:
                return w
        return None

    def defined_by_address_only(self, d):
        """the variable never receives a value by assignment: it is filled through `&v` out-arguments (stored lists)"""
        if self.defs_of(d) and any((n["k"] != "VarDecl" or n.get("c")) for n in self.defs_of(d)):
            return False
        for n in self.f.walk():
            if n["k"] == "UnOp" and n.get("op") == "&":
                x = n["c"][0]
                if x is not None and x["k"] == "DeclRefExpr" and x.get("d") == d:
                    return True
        return False


# ------------------------------------------------------------------------------------------
# Raw sample variables: loop variables ranging over all the samples of a data base
# ------------------------------------------------------------------------------------------
import re as _re

RANK_PARAM = _re.compile(r"^(i|j)?ech\d*$|^iech_?\w*$|^jech_?\w*$|^rank$|^iech$")


def rank_arg_index(prog, call):
    """position of the sample-rank argument of a Db accessor call (from the parameter names of the declaration)"""
    cls = call.get("cls") or ""
    short = (call.get("callee") or "").split("::")[-1]
    nargs = len(call_args(call))
    for c in [cls] + prog.bases(cls):
        for m in prog.classes.get(c, {}).get("methods", []):
            if m["n"] == short and len(m["params"]) >= nargs:
                for i, p in enumerate(m["params"]):
                    if RANK_PARAM.match(p["n"]) and "int" in p["t"]:
                        return i
    return None


def nsample_db(f, e, depth=0):
    """if expression e is `X->getSampleNumber()` (possibly through a local / cast / (int)): the receiver string X"""
    if e is None or depth > 3:
        return None
    if e["k"] == "MCall" and (e.get("callee") or "").split("::")[-1] in ("getSampleNumber",) and (e.get("cls") or "").startswith("Db"):
        a = call_args(e)
        if a and a[0] is not None and a[0]["k"] != "DefaultArg":
            # getSampleNumber(true) = number of ACTIVE samples: not a raw bound
            if not (a[0]["k"] == "Bool" and a[0]["v"] is False):
                return None
        o = call_obj(e)
        return "this" if (o is None or o["k"] == "This") else show(o)
    if e["k"] == "Cast":
        return nsample_db(f, e["c"][0], depth + 1)
    if e["k"] == "DeclRefExpr" and e.get("dk") == "var":
        d = single_def(f, e["d"])
        if d is not None and d is not e:
            return nsample_db(f, d, depth + 1)
    return None


def raw_sample_vars(prog, f):
    """[(decl id, name, db receiver string, loop node)] for loop variables ranging over 0..X->getSampleNumber(), and
    variables assigned inside such a loop from a permutation array indexed by the loop variable (getSortArray)"""
    out = []
    for loop in f.walk():
        if loop["k"] != "For":
            continue
        init, cond, inc, body = loop["c"]
        if cond is None or cond["k"] != "BinOp" or cond.get("op") != "<":
            continue
        # `ret && i < n` style conditions are not handled (not used for sample loops)
        lv, bd = cond["c"]
        if lv is None or lv["k"] != "DeclRefExpr":
            continue
        db = nsample_db(f, bd)
        if db is None:
            continue
        out.append((lv["d"], lv["n"], db, loop))
        # permutation: v = arr[lv]
        for n in walk(body):
            if n["k"] == "Assign" and n.get("op") == "=":
                l, r = n["c"]
                if l is not None and l["k"] == "DeclRefExpr" and r is not None and r["k"] in ("OpCall", "Index") and len(r.get("c") or []) == 2:
                    base, idx = r["c"]
                    if idx is not None and idx["k"] == "DeclRefExpr" and idx.get("d") == lv["d"] and base is not None and base["k"] == "DeclRefExpr":
                        bdef = single_def(f, base["d"])
                        src = show(bdef) if bdef is not None else base["n"]
                        if "getSortArray" in src or base["n"] in ("rindex",):
                            out.append((l["d"], l["n"], db, loop))
    # computed ranks: v = X->indiceToRank(..) / X->coordinateToRank(..) designates an arbitrary node of grid X
    for n in f.walk():
        tgt = rhs = None
        if n["k"] == "VarDecl" and n.get("c"):
            tgt, rhs = (n["d"], n["n"]), n["c"][0]
        elif n["k"] == "Assign" and n.get("op") == "=" and n["c"][0] is not None and n["c"][0]["k"] == "DeclRefExpr":
            tgt, rhs = (n["c"][0]["d"], n["c"][0]["n"]), n["c"][1]
        if rhs is not None and rhs["k"] == "MCall" and (rhs.get("callee") or "").split("::")[-1] in ("indiceToRank", "coordinateToRank") \
                and (rhs.get("cls") or "").startswith("Db"):
            o = call_obj(rhs)
            db = "this" if (o is None or o["k"] == "This") else show(o)
            # region: the innermost enclosing loop body (or the whole function)
            region = None
            for a in f.ancestors(n):
                if a["k"] in ("For", "While", "Do", "ForRange"):
                    region = a
                    break
            fake = region if region is not None else {"c": [None, None, None, f.body], "l": n.get("l", f.line), "k": "Fn"}
            if fake["k"] != "For":
                fake = {"c": [None, None, None, fake["c"][-1] if fake["k"] in ("While", "ForRange") else (fake["c"][0] if fake["k"] == "Do" else f.body)],
                        "l": fake.get("l", f.line), "k": "Region"}
            fake = dict(fake)
            fake["computed"] = True
            out.append((tgt[0], tgt[1], db, fake))
    return out


def _is_pruning(f, n):
    """n sits in the condition of `if (..) break;` (no else)"""
    cur = n
    for _ in range(6):
        par = f.parent(cur)
        if par is None:
            return False
        if par["k"] == "If":
            cnd, then, els = par["c"][-3], par["c"][-2], par["c"][-1]
            in_cond = cnd is not None and any(z["i"] == n["i"] for z in walk(cnd))
            is_break = then is not None and (then["k"] == "Break" or (then["k"] == "Block" and len([c for c in then["c"] if c]) == 1 and
                                                                       [c for c in then["c"] if c][0]["k"] == "Break"))
            return in_cond and is_break and els is None
        cur = par
    return False


def consumers(prog, f, d, db, within):
    """rank reads / writes of data base `db` by variable d inside the statement tree `within`"""
    out = []
    for n in walk(within):
        if n["k"] != "MCall" or not (n.get("cls") or "").startswith("Db"):
            continue
        short = (n.get("callee") or "").split("::")[-1]
        if short in ACTIVE_CALLS:
            continue
        if short == "getDistance1D" and _is_pruning(f, n):
            continue        # `if (db->getDistance1D(j, i) > maxdist) break;` leaves a sorted enumeration: nothing of sample j is consumed
        o = call_obj(n)
        recv = "this" if (o is None or o["k"] == "This") else show(o)
        if recv != db:
            continue
        ri = rank_arg_index(prog, n)
        if ri is None:
            continue
        a = call_args(n)
        if ri < len(a) and a[ri] is not None and a[ri]["k"] == "DeclRefExpr" and a[ri].get("d") == d:
            out.append(n)
    return out
