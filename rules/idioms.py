"""Small idiom-polarity rules shared by several properties (each is unanimous in the library apart from the seeded deviation it was
written for; the census is printed in DESIGN.md)."""
from facts import show, call_args, walk
from e1_paths import peel_cond


def _strip(e):
    while e is not None and e["k"] in ("Cast", "Paren") and e.get("c"):
        e = e["c"][0]
    return e


def defined_bound_rule(prog, chk, rule, file_filter, floor_n):
    """a comparison with a bound that may be undefined is guarded by `!FFFF(bound) && v OP bound`.  With the negation lost
    (`FFFF(max) && param > max`) the comparison only happens when there is no bound - where it is meaningless - and the bound is never
    enforced: a Stable structure accepts the exponent 3 and the covariance matrix of 25 aligned points has a negative eigenvalue."""
    n = 0
    for f in sorted(prog.funcs, key=lambda x: (x.file, x.line)):
        if f.body is None or not any(s_ in f.file for s_ in file_filter):
            continue
        for x in f.walk():
            if x["k"] != "BinOp" or x.get("op") != "&&":
                continue
            core, pol = peel_cond(x["c"][0])
            if core is None or core["k"] != "Call" or (core.get("callee") or "") != "FFFF" or not call_args(core):
                continue
            a = show(_strip(call_args(core)[0]))
            r = _strip(x["c"][1])
            if r is None or r["k"] != "BinOp" or r.get("op") not in ("<", ">", "<=", ">=") or a not in [show(_strip(z)) for z in r["c"]]:
                continue
            n += 1
            ok = pol is False
            if not ok:
                chk.analysed(f)
            chk.ob(rule, "%s: `%s` compares with `%s` only when it is defined" % (f.name, show(r)[:40], a), f.loc(x), ok,
                   detail=None if ok else "`%s`: the comparison takes place exactly when `%s` is UNdefined, and never when it holds a bound: the bound is "
                   "not enforced" % (show(x)[:60], a), key="%s|%s|%s" % (rule, f.name, show(r)[:30]), nontrivial=not ok)
    chk.floor(rule, n, floor_n)
