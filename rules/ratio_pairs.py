"""Weighted-mean pairing.  A ratio N / D of two local accumulators of the same function is a weighted mean only when the
weight that multiplies each term added to N is the quantity added to D: `N += w * v; D += w; ... N / D`.  A ratio whose
denominator accumulates ANOTHER weight than the one the numerator's terms carry (`s12wzz += ww*ww*z1*z2` divided by
`sumw += ww`) is not the mean it claims to be as soon as the weights are not all 1 (or 0/1)."""
from facts import show, walk


def _strip(n):
    while n is not None and n["k"] in ("Cast", "Paren"):
        n = n["c"][0]
    return n


def _factors(e):
    e = _strip(e)
    if e is None:
        return []
    if e["k"] == "BinOp" and e.get("op") == "*":
        return _factors(e["c"][0]) + _factors(e["c"][1])
    return [show(e)]


def _is_one(e):
    e = _strip(e)
    return e is not None and e["k"] in ("Int", "Float", "IntLit", "FloatLit") and float(e.get("v") or 0) == 1.0


def accumulators(f):
    """local decl -> list of increment expressions (`X += e` inside a loop; `X++` counts as 1)"""
    acc = {}
    loops = [x for x in f.walk() if x["k"] in ("For", "While", "Do", "DoWhile", "ForRange")]
    for L in loops:
        for x in walk(L):
            if x["k"] in ("Assign", "CompoundAssign") and x.get("op") == "+=":
                l = _strip(x["c"][0])
                if l is not None and l["k"] == "DeclRefExpr" and l.get("dk") == "var":
                    acc.setdefault(l["d"], {"n": l["n"], "inc": {}})["inc"][x["i"]] = x["c"][1]
            elif x["k"] == "UnOp" and x.get("op") == "++":
                l = _strip(x["c"][0])
                if l is not None and l["k"] == "DeclRefExpr" and l.get("dk") == "var":
                    acc.setdefault(l["d"], {"n": l["n"], "inc": {}})["inc"][x["i"]] = None
    return acc


def rule(prog, chk, rule_id, file_filter, floor_n):
    n = 0
    for f in sorted(prog.funcs, key=lambda x: (x.file, x.line)):
        if f.body is None or not any(s_ in f.file for s_ in file_filter):
            continue
        acc = None
        for x in f.walk():
            num = den = None
            if x["k"] == "BinOp" and x.get("op") == "/":
                num, den = _strip(x["c"][0]), _strip(x["c"][1])
            elif x["k"] in ("Assign", "CompoundAssign") and x.get("op") == "/=":
                num, den = _strip(x["c"][0]), _strip(x["c"][1])
            if num is None or den is None or num["k"] != "DeclRefExpr" or den["k"] != "DeclRefExpr":
                continue
            if acc is None:
                acc = accumulators(f)
            if num.get("d") not in acc or den.get("d") not in acc or num["d"] == den["d"]:
                continue
            N, D = acc[num["d"]], acc[den["d"]]
            dfs = []
            for e in D["inc"].values():
                dfs.append([] if (e is None or _is_one(e)) else _factors(e))
            bad = None
            for e in N["inc"].values():
                nf = _factors(e) if e is not None else []
                ok = False
                for df in dfs:
                    rest = list(nf)
                    good = True
                    for t in df:
                        if t in rest:
                            rest.remove(t)
                        else:
                            good = False
                            break
                    if good:
                        ok = True
                        break
                if not ok:
                    bad = (e, nf)
                    break
            n += 1
            if bad:
                chk.analysed(f)
            chk.ob(rule_id, "%s: `%s / %s` divides a sum by the sum of the weights its terms carry" % (f.name, N["n"], D["n"]), f.loc(x), bad is None,
                   detail=None if bad is None else "`%s` accumulates `%s` while `%s` accumulates %s: the denominator is not the total of the weights that multiply the "
                   "terms of the numerator, the ratio is not their weighted mean when the weights differ from 1" % (
                       N["n"], show(bad[0])[:50], D["n"], " | ".join("`%s`" % (" * ".join(d_) or "1") for d_ in dfs)[:80]),
                   key="%s|%s|%s/%s" % (rule_id, f.name, N["n"], D["n"]), nontrivial=bad is not None)
    chk.floor(rule_id, n, floor_n)
