"""Obligation bookkeeping, known findings, evidence files, exit protocol."""
import json
import os
import sys
import time

from facts import VERIF, REPO, AnalysisBroken

EVIDENCE = os.environ.get("GSA_EVIDENCE_DIR") or os.path.join(VERIF, "evidence")
REPLAY = os.path.join(EVIDENCE, "replay")
KNOWN = os.path.join(VERIF, "known_findings.json")


class Check:
    def __init__(self, pid, tier, explanation, level="other"):
        self.pid = pid
        self.tier = tier
        self.level = level
        self.explanation = explanation
        self.t0 = time.time()
        self.obs = []          # obligations
        self.floors = []       # (rule, found, floor)
        self.units = []
        self.functions = set()
        self.assumptions = []
        self.notes = []
        self.extra = {}
        self.nontrivial = set()
        try:
            self.known = json.load(open(KNOWN))
        except FileNotFoundError:
            self.known = {"findings": [], "fixed": []}

    # ---- recording ------------------------------------------------------------------
    def ob(self, rule, instance, where, ok, detail=None, key=None, nontrivial=True, path=None):
        """One rule instance.  `key` (rule|function|what) identifies the instance in
        known_findings.json; never a line number."""
        o = {"rule": rule, "instance": instance, "where": where,
             "verdict": "ok" if ok else "violation"}
        if detail:
            o["detail"] = detail
        if path:
            o["path"] = path
        o["key"] = key or ("%s|%s" % (rule, instance))
        self.obs.append(o)
        if nontrivial:
            self.nontrivial.add(o["key"])
        return ok

    def floor(self, rule, found, minimum):
        self.floors.append({"rule": rule, "instances": found, "floor": minimum})
        if found < minimum:
            raise AnalysisBroken("rule %s matched %d instance(s), confirmed floor is %d "
                                 "(anchor moved or extractor blind)" % (rule, found, minimum))

    def analysed(self, func):
        self.functions.add(func.name)

    # ---- conclusion ---------------------------------------------------------------------
    def finish(self):
        os.makedirs(REPLAY, exist_ok=True)
        known_keys = {}
        for k in self.known.get("findings", []):
            if k.get("property") == self.pid:
                known_keys[k["key"]] = k
        viol = [o for o in self.obs if o["verdict"] == "violation"]
        new = []
        seen_known = set()
        for o in viol:
            if o["key"] in known_keys:
                o["verdict"] = "known-finding"
                if o["key"] not in seen_known:
                    seen_known.add(o["key"])
                    print("KNOWN-FINDING: property=%s %s [%s] %s" % (
                        self.pid, o["key"], o["where"], known_keys[o["key"]].get("what", "")))
            else:
                new.append(o)
        for k in known_keys:
            if k not in seen_known and known_keys[k].get("tier", "quick") in ("quick", self.tier):
                print("note: listed finding no longer reported by this run: %s" % k)
        # remove old replay files of this property
        for fn in os.listdir(REPLAY):
            if fn.startswith(self.pid + "-"):
                os.remove(os.path.join(REPLAY, fn))
        for n, o in enumerate(new):
            rp = os.path.join(REPLAY, "%s-%d.json" % (self.pid, n + 1))
            with open(rp, "w") as f:
                json.dump({"property": self.pid, "report": o,
                           "how_to_reproduce": "./check %s --tier %s   (static: re-derives the report from /repo's sources)" % (self.pid, self.tier)},
                          f, indent=1)
            print("REPORT %s %s at %s: %s [key %s]" % (o["rule"], o["instance"], o["where"], o.get("detail", ""), o["key"]))
            for p in o.get("path", []) or []:
                print("    " + p)
            print("VIOLATION property=%s replay=%s" % (self.pid, rp))
        nob = len(self.obs)
        ndis = len([o for o in self.obs if o["verdict"] == "ok"])
        samples = []
        by_rule = {}
        for o in self.obs:
            by_rule.setdefault(o["rule"], []).append(o)
        for r, lst in sorted(by_rule.items()):
            for o in lst[:3]:
                samples.append({k: o[k] for k in ("rule", "instance", "where", "verdict") if k in o})
        for o in viol[:20]:
            s = {k: o[k] for k in ("rule", "instance", "where", "verdict", "detail") if k in o}
            if s not in samples:
                samples.append(s)
        ev = {
            "property_id": self.pid,
            "tier": self.tier,
            "seed": int(os.environ.get("VERIF_SEED", "0") or 0),
            "level": self.level,
            "coverage": {
                "explanation": self.explanation,
                "obligations": nob,
                "discharged": ndis,
                "evaluations": nob,
                "distinct_nontrivial": len(self.nontrivial),
                "rule": "one obligation per rule instance found in /repo's current sources by the "
                        "extractor (resolved AST/CFG); non-trivial = the instance's antecedent occurs "
                        "(the acquire is called, the sample is consumed, the record is written ...); "
                        "distinct by rule+function+site key",
                "samples": samples,
                "per_rule": {r: {"instances": len(l), "ok": len([o for o in l if o["verdict"] == "ok"]),
                                 "known_findings": len([o for o in l if o["verdict"] == "known-finding"]),
                                 "violations": len([o for o in l if o["verdict"] == "violation"])}
                             for r, l in sorted(by_rule.items())},
                "floors": self.floors,
                "units_analysed": sorted(os.path.relpath(u, REPO) if u.startswith(REPO) else u for u in self.units),
                "functions_analysed": len(self.functions),
                "known_findings_reported": sorted(seen_known),
                "notes": self.notes,
            },
            "assumptions": self.assumptions,
            "wall_s": round(time.time() - self.t0, 2),
            "violations": len(new),
        }
        ev["coverage"].update(self.extra)
        if self.level == "proof":
            ev["coverage"].setdefault("checker_cmd", "./check %s --tier %s" % (self.pid, self.tier))
            ev["coverage"].setdefault("trusted_base", ["clang 14 front end (AST, CFG)", "gsa-extract", "rules/*.py"])
        os.makedirs(EVIDENCE, exist_ok=True)
        with open(os.path.join(EVIDENCE, self.pid + ".json"), "w") as f:
            json.dump(ev, f, indent=1)
        print("%s %s: %d obligations, %d discharged, %d known finding(s), %d violation(s); "
              "%d units, %d functions; %.1fs" % (self.pid, self.tier, nob, ndis, len(seen_known),
                                                 len(new), len(self.units), len(self.functions),
                                                 time.time() - self.t0))
        return 1 if new else 0
