"""Shared rule: a bool function following the repository convention (true = success) must not return a
success literal on a failure branch (R9.4 / R19.5).  Failure branch = then-branch of
  - `if (<int-returning call>)`            (error code convention),
  - `if (!<bool-returning call>)`,
  - `if (!<bool status accumulator>)`      (a local assigned from `x = x && call(...)` chains),
  - `if (<id> < 0)`                        (identifier convention),
or a return that directly follows an error message (messerr) in its block."""
from e1_paths import peel_cond, single_def
from facts import show, walk


def status_accumulators(f):
    """bool locals used as `ret = ret && ...` accumulators or initialised from a call"""
    acc = set()
    for n in f.walk():
        if n["k"] == "Assign" and n.get("op") == "=":
            l, r = n["c"]
            if l is not None and l["k"] == "DeclRefExpr" and r is not None and r["k"] == "BinOp" and r.get("op") == "&&":
                a = r["c"][0]
                if a is not None and a["k"] == "DeclRefExpr" and a.get("d") == l.get("d"):
                    acc.add(l["d"])
    return acc


def failure_context(f, r, intlit):
    """why the return statement r sits on a failure branch, or None"""
    why = None
    p = f.parent(r)
    blk = p if p is not None and p["k"] == "Block" else None
    holder = r if blk is None else blk
    ifn = f.parent(holder)
    if blk is not None:
        for sib in blk["c"]:
            if sib is r:
                break
            if sib is not None and sib["k"] == "Call" and sib.get("callee") == "messerr":
                why = "follows an error message"
    if ifn is not None and ifn["k"] == "If":
        slots = ifn["c"]
        then = slots[-2]
        if then is holder:
            cond = [x for x in slots[:-2] if x is not None][-1]
            core, pol = peel_cond(cond)
            if core is not None and core["k"] == "DeclRefExpr" and core.get("dk") == "var":
                d = single_def(f, core["d"])
                if d is not None:
                    core = d
            if core is not None and core["k"] == "BinOp" and core.get("op") == "<" and pol is True and \
                    core["c"][1] is not None and core["c"][1]["k"] == "Int" and core["c"][1]["v"] == 0:
                why = "is taken when %s is negative (identifier convention: negative = error)" % show(core["c"][0])[:40]
            if core is not None and core["k"] in ("Call", "MCall") and intlit:
                rt = core.get("rt", "")
                if rt.startswith("int") and pol is True:
                    why = "is taken when %s returns an error code" % show(core)[:50]
                elif rt.startswith("bool") and pol is False:
                    why = "is taken when %s fails" % show(core)[:50]
            if core is not None and core["k"] == "DeclRefExpr" and pol is False and intlit and \
                    core.get("d") in status_accumulators(f):
                why = "is taken when the accumulated read status `%s` is false" % core["n"]
    return why


def success_literal_on_failure(f):
    """[(return node, why)] for every `return <success literal>` on a failure branch of bool function f"""
    out = []
    for r in f.walk():
        if r["k"] != "Return":
            continue
        v = (r.get("c") or [None])[0]
        if v is None:
            continue
        intlit = v["k"] == "Int" and v["v"] != 0
        boollit = v["k"] == "Bool" and v["v"] is True
        if not (intlit or boollit):
            continue
        why = failure_context(f, r, intlit)
        if boollit and why != "follows an error message":
            continue
        if why:
            out.append((r, why))
    return out
