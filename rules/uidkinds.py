"""E5 kinds - persistent identifiers (UID) vs column indices of a Db.  A column of a Db has a position (column index,
0..ncol-1, which shifts when an earlier column is deleted) and a persistent identifier (UID, never re-used).  The two
coincide on a Db from which no column was ever deleted, so every confusion is invisible in the tests.

Sources: the Db accessors say which kind they return (getUID*, getLastUID, addColumns*, _addVariableDb -> UID;
getColIdx*, getColumnNumber() (a count of columns: `getColumnNumber() - 1` is the last column INDEX) -> COL).
Sinks: a callee parameter named iuid / iuids / iatt* ... needs a UID, a parameter named icol / icols needs a column index
(parameter names resolved from the declaration of the callee, all overloads of the arity must agree)."""
from e1_paths import single_def
from facts import call_args, call_obj, show, walk, CALL_KINDS
import argswap

UID_SRC = ("getUID", "getUIDs", "getUIDByLocator", "getUIDsByLocator", "getUIDByColIdx", "getLastUID", "getAllUIDs", "getUIDsByColIdx",
           "addColumns", "addColumnsByConstant", "addColumnsByVVD", "_addVariableDb", "addColumnsRandom", "getUIDMaxNumber")
COL_SRC = ("getColIdx", "getColIdxs", "getColIdxByUID", "getColIdxByLocator", "getColIdxsByLocator", "getColIdxsByUID", "getColumnNumber")


def _is_uid_param(n):
    n = n.lower()
    return n in ("iuid", "iuids", "iuid_in", "iuid_out", "juid", "uid", "uids") or n.startswith("iuid")


def _is_col_param(n):
    n = n.lower()
    return n in ("icol", "icols", "jcol", "icol_in", "icol_out") or n.startswith("icol")


def kind_of(f, e, depth=0):
    """'UID' / 'COL' / None for the expression e in function f"""
    while e is not None and e["k"] in ("Cast", "Paren"):
        e = e["c"][0]
    if e is None or depth > 4:
        return None
    k = e["k"]
    if k == "MemberExpr" and e.get("mk") == "field" and e.get("n") == "_ncol":
        return "COL"
    if k == "MCall" and (e.get("callee") or "").split("::")[-1] == "size":
        o = call_obj(e)
        if o is not None and o["k"] == "MemberExpr" and o.get("n") == "_uidcol":
            return "UID"
    if k in ("MCall", "Call"):
        short = (e.get("callee") or "").split("::")[-1]
        cls = e.get("cls") or ""
        if short in UID_SRC and (cls.startswith("Db") or "Calc" in cls or short == "_addVariableDb" or not cls):
            return "UID"
        if short in COL_SRC and (cls.startswith("Db") or not cls):
            return "COL"
        return None
    if k == "BinOp" and e.get("op") in ("+", "-"):
        ks = {kind_of(f, e["c"][0], depth + 1), kind_of(f, e["c"][1], depth + 1)} - {None}
        return ks.pop() if len(ks) == 1 else None
    if k == "Index" or (k == "OpCall" and e.get("op") == "[]"):
        return kind_of(f, e["c"][0], depth + 1)
    if k == "DeclRefExpr":
        if e.get("dk") == "parm":
            return None          # the names of the parameters of arbitrary functions are not reliable (icol0 holding a UID is common)
        if e.get("dk") == "var":
            defs = []
            for x in f.walk():
                if x["k"] == "VarDecl" and x.get("d") == e["d"] and x.get("c") and x["c"][0] is not None:
                    defs.append(x["c"][0])
                elif x["k"] == "Assign" and x.get("op") == "=" and x["c"][0] is not None and x["c"][0]["k"] == "DeclRefExpr" and x["c"][0].get("d") == e["d"]:
                    defs.append(x["c"][1])
            kinds = set()
            for d in defs:
                dd = d
                while dd is not None and dd["k"] in ("Cast", "Paren"):
                    dd = dd["c"][0]
                if dd is None or dd["k"] in ("Int", "IntLit") or (dd["k"] == "UnOp" and dd.get("op") == "-"):
                    continue          # -1 / 0 placeholders
                kinds.add(kind_of(f, dd, depth + 1))
            if len(kinds) == 1:
                return kinds.pop()
    return None


def rule(prog, chk, rule_id, file_filter, floor_n, accepted=None):
    accepted = accepted or {}
    n = 0
    for f in sorted(prog.funcs, key=lambda x: (x.file, x.line)):
        if f.body is None or not any(s_ in f.file for s_ in file_filter):
            continue
        for c in f.calls():
            if c["k"] not in ("MCall", "Call"):
                continue
            if not (c.get("cls") or "").startswith("Db") and "Calc" not in (c.get("cls") or ""):
                continue          # sinks: the Db API (and the calculators' setters), whose parameter names are reliable
            P = argswap.callee_params(prog, c)
            if not P:
                continue
            for i, a in enumerate(call_args(c)):
                if a is None or i >= len(P):
                    continue
                want = "UID" if _is_uid_param(P[i][0]) else ("COL" if _is_col_param(P[i][0]) else None)
                if want is None:
                    continue
                got = kind_of(f, a)
                if got is None:
                    continue
                n += 1
                short = (c.get("callee") or "").split("::")[-1]
                why = accepted.get((f.name, short, show(a)[:30]))
                bad = got != want and not why
                if got != want:
                    chk.analysed(f)
                chk.ob(rule_id, "%s: `%s` handed to the %s parameter `%s` of %s is %s" % (
                           f.name, show(a)[:30], "identifier" if want == "UID" else "column-index", P[i][0], short,
                           "an identifier" if got == "UID" else "a column index"), f.loc(c), not bad,
                       detail=None if not bad else "the value is a %s (%s) and the parameter `%s` is a %s: the two numberings coincide only on a data base "
                       "from which no column was ever deleted; after a deletion the call designates another column" % (
                           "column index / count" if got == "COL" else "persistent identifier", show(a)[:40], P[i][0],
                           "persistent identifier" if want == "UID" else "column index"),
                       key="%s|%s|%s(%s)#%d" % (rule_id, f.name, short, show(a)[:30], i), nontrivial=got != want)
    chk.floor(rule_id, n, floor_n)


def table_rule(prog, chk, rule_id, floor_n):
    """the table `_uidcol` of Db is subscripted by identifiers and holds column indices: `_uidcol[<column index>]` and
    `_uidcol[..] = <identifier / number of identifiers>` are kind errors (sibling functions addColumnsByConstant /
    addColumnsRandom must both store `ncol + i`)."""
    n = 0
    for f in sorted(prog.funcs, key=lambda x: (x.file, x.line)):
        if f.body is None or not (f.cls or "").startswith("Db"):
            continue
        for x in f.walk():
            if not (x["k"] == "Index" or (x["k"] == "OpCall" and x.get("op") == "[]")):
                continue
            b = x["c"][0]
            if b is None or b["k"] != "MemberExpr" or b.get("n") != "_uidcol":
                continue
            ki = kind_of(f, x["c"][1])
            par = f.parent(x)
            kv = None
            if par is not None and par["k"] == "Assign" and par.get("op") == "=" and par["c"][0] is x:
                kv = kind_of(f, par["c"][1])
            n += 1
            bad = ki == "COL" or kv == "UID"
            if bad:
                chk.analysed(f)
            chk.ob(rule_id, "%s: `%s`%s respects the kinds of the identifier table" % (f.name, show(x)[:30], (" = " + show(par["c"][1])[:20]) if kv or (par is not None and par["k"] == "Assign" and par["c"][0] is x) else ""),
                   f.loc(x), not bad,
                   detail=None if not bad else ("the table is subscripted with a column index" if ki == "COL" else
                   "an identifier (or the number of identifiers issued) is stored where the column index belongs") +
                   ": identifiers and column indices coincide only until a column is deleted; afterwards the entry designates another column (or none)",
                   key="%s|%s|%s" % (rule_id, f.name, show(x)[:30]), nontrivial=bad)
    chk.floor(rule_id, n, floor_n)
