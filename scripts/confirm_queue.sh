#!/bin/bash
# usage: confirm_queue.sh <worktree> <seed> [<seed> ...]   (sequential confirmations in one worktree)
WT=$1; shift
for S in "$@"; do
  P=${S%%-*}; J=${S##*-m}
  OUT=/tmp/confirm-$S
  rm -rf $OUT
  /verif/seeded/confirm.sh $WT /verif/seeded/$S/patch.diff /verif/seeded/$S/demo.cpp $OUT > /verif/seeded/logs/confirm-$P-$J.txt 2>&1
  { echo "--- pristine demo (tail)"; tail -5 $OUT/demo_pristine.txt; echo "--- mutated demo (tail)"; tail -8 $OUT/demo_mut.txt; grep -h "tests passed" $OUT/ctest_run.log $OUT/ctest_cmp.log; } >> /verif/seeded/logs/confirm-$P-$J.txt 2>&1
  rm -rf $OUT
done
