#!/bin/bash
# usage: reconfirm_spde.sh <worktree> <seed>...   re-run only bench_SPDE (+cmp) on the mutated tree with a long timeout
WT=$1; shift
for S in "$@"; do
  P=${S%%-*}; J=${S##*-m}
  cd $WT && git checkout -q -- src include && git apply /verif/seeded/$S/patch.diff && ninja -C _build -j8 >/dev/null 2>&1
  export PYGSTLEARN_DIR=/tmp/reconf-$S/; mkdir -p $PYGSTLEARN_DIR
  r1=$(ctest --test-dir _build --timeout 3000 -R '^bench_SPDE$' 2>&1 | grep "tests passed")
  r2=$(ctest --test-dir _build --timeout 3000 -R '^bench_SPDE_cmp$' 2>&1 | grep "tests passed")
  echo "re-run of bench_SPDE alone on the mutated tree (the timeout above was machine load): $r1 ; bench_SPDE_cmp: $r2" >> /verif/seeded/logs/confirm-$P-$J.txt
  git checkout -q -- src include; rm -rf /tmp/reconf-$S
done
cd $WT && ninja -C _build -j8 >/dev/null 2>&1
