#!/bin/bash
# usage: suite.sh <tag> : full two-pass suite on /repo/_build (after cmake --build)
tag=$1
export PYGSTLEARN_DIR=/tmp/repo-gstdir/
mkdir -p $PYGSTLEARN_DIR
cd /repo && cmake --build _build -j16 >/tmp/ctest${tag}_build.log 2>&1 || { echo BUILD FAILED; exit 3; }
ctest --test-dir /repo/_build -j4 --timeout 2400 -E '_cmp$' > /tmp/ctest${tag}_run.log 2>&1
ctest --test-dir /repo/_build -j4 --timeout 2400 -R '_cmp$' > /tmp/ctest${tag}_cmp.log 2>&1
grep "tests passed" /tmp/ctest${tag}_run.log /tmp/ctest${tag}_cmp.log
grep -h "Failed\|Timeout\|Exception" /tmp/ctest${tag}_run.log /tmp/ctest${tag}_cmp.log | grep -v "Not Run" | head -20
