#!/bin/bash
cd /verif
for P in "$@"; do
  GSA_WORKTAG=-th GSA_EVIDENCE_DIR=/tmp/ev-th ./check $P --tier thorough > .work/thorough-$P.log 2>&1
  echo "$P rc=$?"
done
