#!/usr/bin/env python3
"""Self-test of the checkers, both ways: each case edits a scratch copy of /repo's sources (never /repo itself),
runs one check on the copy and compares the outcome with the expectation:
  B (breaking)  -> the check must exit 1 and some VIOLATION/REPORT line must contain `expect`
  N (benign)    -> the check must exit 0
usage: selftest/run.py [case-id-substring ...]      (not one of the registered checks)"""
import json
import os
import re
import shutil
import subprocess
import sys
import tempfile

HERE = os.path.dirname(os.path.abspath(__file__))
VERIF = os.path.dirname(HERE)
REPO = "/repo"


def make_copy():
    d = tempfile.mkdtemp(prefix="gsa-self-", dir="/var/tmp")
    for sub in ("src", "include", "3rd-party"):
        shutil.copytree(os.path.join(REPO, sub), os.path.join(d, sub), symlinks=True)
    shutil.copy(os.path.join(REPO, "version.h.in"), d)
    return d


def apply(copy, edits):
    for e in edits:
        if "patch" in e:
            p = subprocess.run(["patch", "-p1", "-s", "-d", copy, "-i", os.path.join(VERIF, e["patch"])], stdout=subprocess.PIPE, stderr=subprocess.STDOUT, text=True)
            if p.returncode != 0:
                raise SystemExit("selftest case: patch %s does not apply: %s" % (e["patch"], p.stdout[-300:]))
            continue
        p = os.path.join(copy, e["file"])
        s = open(p).read()
        if s.count(e["old"]) != e.get("count", 1):
            raise SystemExit("selftest case is stale: %r occurs %d times in %s" % (e["old"][:60], s.count(e["old"]), e["file"]))
        s = s.replace(e["old"], e["new"])
        open(p, "w").write(s)


def main():
    cases = json.load(open(os.path.join(HERE, "cases.json")))
    sel = sys.argv[1:]
    ok = True
    evdir = os.path.join(VERIF, ".work", "selftest-evidence")
    os.makedirs(evdir, exist_ok=True)
    for c in cases:
        if sel and not any(x in c["id"] for x in sel):
            continue
        copy = make_copy()
        try:
            apply(copy, c["edits"])
            env = dict(os.environ, GSA_EVIDENCE_DIR=evdir, GSA_WORKTAG="-self")
            p = subprocess.run([os.path.join(VERIF, "check"), c["check"], "--tier", "quick", "--repo", copy],
                               stdout=subprocess.PIPE, stderr=subprocess.STDOUT, text=True, env=env)
            out = p.stdout
            if c["kind"] == "B":
                hit = p.returncode == 1 and any(c["expect"] in l for l in out.splitlines() if l.startswith(("REPORT", "VIOLATION")))
                verdict = "ok (reported)" if hit else "MISSED (rc=%d)" % p.returncode
                ok = ok and hit
            else:
                hit = p.returncode == 0
                verdict = "ok (silent)" if hit else "FALSE ALARM (rc=%d)" % p.returncode
                ok = ok and hit
            print("%-4s %-40s %s" % (c["kind"], c["id"], verdict))
            if not hit:
                print("\n".join("      " + l for l in out.splitlines()[-12:]))
        finally:
            shutil.rmtree(copy, ignore_errors=True)
    return 0 if ok else 1


if __name__ == "__main__":
    sys.exit(main())
