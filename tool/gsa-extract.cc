// gsa-extract: libTooling fact extractor for the gstlearn static checks.
//
// For one translation unit it writes ONE JSON file with, for every function
// *defined in the repository* (main file, and repo headers when --headers is
// given): identity, parameters, a compact type-resolved statement tree and the
// clang CFG (blocks -> ordered statement ids, terminator, successors).
// It also writes the classes (bases, fields, methods), file/namespace scope
// variables and enum constants seen in repository files.
//
// No rule logic lives here: rules are in /verif/rules/*.py.
//
// usage: gsa-extract --root /repo --out DIR [--headers] [--summary] file.cpp -- <clang flags>

#include "clang/AST/ASTConsumer.h"
#include "clang/AST/ASTContext.h"
#include "clang/AST/DeclCXX.h"
#include "clang/AST/DeclTemplate.h"
#include "clang/AST/ExprCXX.h"
#include "clang/AST/ExprOpenMP.h"
#include "clang/AST/StmtOpenMP.h"
#include "clang/AST/OpenMPClause.h"
#include "clang/AST/RecursiveASTVisitor.h"
#include "clang/AST/StmtCXX.h"
#include "clang/Analysis/CFG.h"
#include "clang/Frontend/CompilerInstance.h"
#include "clang/Frontend/FrontendAction.h"
#include "clang/Index/USRGeneration.h"
#include "clang/Tooling/CommonOptionsParser.h"
#include "clang/Tooling/Tooling.h"
#include "llvm/Support/CommandLine.h"
#include "llvm/Support/FileSystem.h"
#include "llvm/Support/JSON.h"
#include "llvm/Support/Path.h"
#include "llvm/Support/raw_ostream.h"

#include <map>
#include <set>
#include <string>

using namespace clang;
using namespace clang::tooling;
namespace json = llvm::json;

static llvm::cl::OptionCategory Cat("gsa-extract options");
static llvm::cl::opt<std::string> OptRoot("root", llvm::cl::desc("repository root"),
                                          llvm::cl::init("/repo"), llvm::cl::cat(Cat));
static llvm::cl::opt<std::string> OptOut("out", llvm::cl::desc("output directory"),
                                         llvm::cl::init("."), llvm::cl::cat(Cat));
static llvm::cl::opt<bool> OptHeaders("headers",
                                      llvm::cl::desc("also emit functions defined in repo headers"),
                                      llvm::cl::cat(Cat));
static llvm::cl::opt<bool> OptSummary("summary",
                                      llvm::cl::desc("emit trees but no CFG (smaller)"),
                                      llvm::cl::cat(Cat));
static llvm::cl::opt<std::string> OptExtraRoot("extra-root",
                                               llvm::cl::desc("second root whose files count as repo files (witness units)"),
                                               llvm::cl::init(""), llvm::cl::cat(Cat));

namespace {

class Extractor {
public:
  Extractor(ASTContext &C) : Ctx(C), SM(C.getSourceManager()), PP(C.getLangOpts()) {
    PP.SuppressTagKeyword = true;
    PP.Bool = true;
    PP.SuppressUnwrittenScope = true;
  }

  ASTContext &Ctx;
  SourceManager &SM;
  PrintingPolicy PP;
  std::map<const Decl *, int> DeclIds;
  // per function
  std::map<const Stmt *, int> StmtIds;
  int NextStmt = 0;

  json::Array Functions, Classes, Globals, Enums;
  std::set<std::string> SeenClass;

  int declId(const Decl *D) {
    D = D->getCanonicalDecl();
    auto it = DeclIds.find(D);
    if (it != DeclIds.end()) return it->second;
    int id = (int)DeclIds.size() + 1;
    DeclIds[D] = id;
    return id;
  }

  std::string fileOf(SourceLocation L) {
    if (L.isInvalid()) return "";
    SourceLocation E = SM.getExpansionLoc(L);
    PresumedLoc P = SM.getPresumedLoc(E);
    if (P.isInvalid()) return "";
    return P.getFilename();
  }
  int lineOf(SourceLocation L) {
    if (L.isInvalid()) return 0;
    return (int)SM.getExpansionLineNumber(L);
  }
  bool startsWith(const std::string &s, const std::string &p) {
    return !p.empty() && s.compare(0, p.size(), p) == 0;
  }
  bool inRepo(SourceLocation L) {
    std::string f = fileOf(L);
    return startsWith(f, OptRoot) || startsWith(f, OptExtraRoot);
  }
  bool wanted(SourceLocation L) {
    if (!inRepo(L)) return false;
    if (OptHeaders) return true;
    return SM.isInMainFile(SM.getExpansionLoc(L));
  }

  std::string typeStr(QualType T) {
    if (T.isNull()) return "";
    return T.getAsString(PP);
  }
  std::string usr(const Decl *D) {
    llvm::SmallString<128> Buf;
    if (index::generateUSRForDecl(D, Buf)) return "";
    return std::string(Buf.str());
  }
  std::string clsName(const CXXRecordDecl *RD) {
    if (isa<ClassTemplateSpecializationDecl>(RD))
      return typeStr(Ctx.getRecordType(RD));
    return qname(RD);
  }
  std::string qname(const NamedDecl *D) {
    std::string S;
    llvm::raw_string_ostream OS(S);
    D->printQualifiedName(OS, PP);
    return OS.str();
  }

  // ------------------------------------------------------------------ statements

  const Expr *strip(const Expr *E) {
    // flatten wrappers that carry no information for the rules
    while (E) {
      if (auto *X = dyn_cast<ImplicitCastExpr>(E)) { E = X->getSubExpr(); continue; }
      if (auto *X = dyn_cast<ParenExpr>(E)) { E = X->getSubExpr(); continue; }
      if (auto *X = dyn_cast<ExprWithCleanups>(E)) { E = X->getSubExpr(); continue; }
      if (auto *X = dyn_cast<MaterializeTemporaryExpr>(E)) { E = X->getSubExpr(); continue; }
      if (auto *X = dyn_cast<CXXBindTemporaryExpr>(E)) { E = X->getSubExpr(); continue; }
      if (auto *X = dyn_cast<ConstantExpr>(E)) { E = X->getSubExpr(); continue; }
      if (auto *X = dyn_cast<SubstNonTypeTemplateParmExpr>(E)) { E = X->getReplacement(); continue; }
      if (auto *X = dyn_cast<CXXDefaultArgExpr>(E)) { (void)X; break; }
      break;
    }
    return E;
  }

  void mapWrappers(const Stmt *S, int id) {
    // every flattened wrapper maps to the id of what it wraps
    while (S) {
      StmtIds[S] = id;
      if (auto *X = dyn_cast<ImplicitCastExpr>(S)) { S = X->getSubExpr(); continue; }
      if (auto *X = dyn_cast<ParenExpr>(S)) { S = X->getSubExpr(); continue; }
      if (auto *X = dyn_cast<ExprWithCleanups>(S)) { S = X->getSubExpr(); continue; }
      if (auto *X = dyn_cast<MaterializeTemporaryExpr>(S)) { S = X->getSubExpr(); continue; }
      if (auto *X = dyn_cast<CXXBindTemporaryExpr>(S)) { S = X->getSubExpr(); continue; }
      if (auto *X = dyn_cast<ConstantExpr>(S)) { S = X->getSubExpr(); continue; }
      if (auto *X = dyn_cast<SubstNonTypeTemplateParmExpr>(S)) { S = X->getReplacement(); continue; }
      break;
    }
  }

  json::Value child(const Stmt *S) {
    if (!S) return nullptr;
    return stmt(S);
  }

  void calleeInfo(const FunctionDecl *FD, json::Object &O) {
    if (!FD) return;
    O["callee"] = qname(FD);
    O["cu"] = usr(FD);
    std::string sig;
    for (unsigned i = 0; i < FD->getNumParams(); i++) {
      if (i) sig += ",";
      sig += typeStr(FD->getParamDecl(i)->getType());
    }
    O["sig"] = sig;
    O["rt"] = typeStr(FD->getReturnType());
    if (auto *MD = dyn_cast<CXXMethodDecl>(FD)) {
      O["cls"] = clsName(MD->getParent());
      if (MD->isVirtual()) O["virt"] = true;
      if (MD->isConst()) O["cconst"] = true;
      if (MD->isStatic()) O["cstatic"] = true;
    }
    if (FD->isVariadic()) O["variadic"] = true;
  }

  json::Value stmt(const Stmt *S0) {
    if (!S0) return nullptr;
    const Stmt *S = S0;
    if (auto *E = dyn_cast<Expr>(S0)) S = strip(E);
    if (!S) return nullptr;
    int id = NextStmt++;
    mapWrappers(S0, id);
    StmtIds[S] = id;

    json::Object O;
    O["i"] = id;
    O["k"] = S->getStmtClassName();
    int ln = lineOf(S->getBeginLoc());
    if (ln) O["l"] = ln;
    json::Array C;

    if (auto *X = dyn_cast<DeclRefExpr>(S)) {
      const ValueDecl *D = X->getDecl();
      O["n"] = D->getNameAsString();
      O["d"] = declId(D);
      if (auto *VD = dyn_cast<VarDecl>(D)) {
        if (isa<ParmVarDecl>(VD)) O["dk"] = "parm";
        else if (VD->isLocalVarDecl()) O["dk"] = VD->isStaticLocal() ? "slocal" : "var";
        else if (VD->isStaticDataMember()) { O["dk"] = "smember"; O["q"] = qname(VD); }
        else { O["dk"] = "gvar"; O["q"] = qname(VD); if (VD->getStorageClass() == SC_Static) O["fstatic"] = true; }
        O["t"] = typeStr(VD->getType());
      } else if (isa<EnumConstantDecl>(D)) {
        O["dk"] = "enum"; O["q"] = qname(D);
        O["v"] = (int64_t)cast<EnumConstantDecl>(D)->getInitVal().getExtValue();
      } else if (auto *FD = dyn_cast<FunctionDecl>(D)) {
        O["dk"] = "func"; O["q"] = qname(FD);
      } else if (isa<BindingDecl>(D)) {
        O["dk"] = "var"; O["t"] = typeStr(D->getType());
      } else {
        O["dk"] = "other"; O["q"] = qname(D);
      }
    } else if (auto *X = dyn_cast<MemberExpr>(S)) {
      const ValueDecl *D = X->getMemberDecl();
      O["n"] = D->getNameAsString();
      O["q"] = qname(D);
      if (X->isArrow()) O["arrow"] = true;
      if (isa<FieldDecl>(D)) { O["mk"] = "field"; O["t"] = typeStr(D->getType()); O["d"] = declId(D); }
      else if (isa<CXXMethodDecl>(D)) O["mk"] = "method";
      else if (isa<VarDecl>(D)) { O["mk"] = "smember"; O["t"] = typeStr(D->getType()); O["d"] = declId(D); }
      else O["mk"] = "other";
      C.push_back(child(X->getBase()));
    } else if (auto *X = dyn_cast<CXXMemberCallExpr>(S)) {
      const CXXMethodDecl *MD = X->getMethodDecl();
      calleeInfo(MD, O);
      O["k"] = "MCall";
      const Expr *Obj = X->getImplicitObjectArgument();
      // children: [object, args...]
      if (MD) {
        C.push_back(child(Obj));
        // map the callee MemberExpr to this node too
        StmtIds[X->getCallee()] = id;
        if (auto *ME = dyn_cast<MemberExpr>(strip(X->getCallee()))) {
          StmtIds[ME] = id;
          if (ME->isArrow()) O["arrow"] = true;
          if (ME->hasQualifier()) {
            // Base::m(): statically bound, no virtual dispatch
            O["qual"] = true;
            O.erase("virt");
          }
        }
      } else {
        // pointer-to-member call: (obj.*pm)(...)
        O["k"] = "PMCall";
        C.push_back(child(X->getCallee()));
      }
      for (const Expr *A : X->arguments()) C.push_back(child(A));
    } else if (auto *X = dyn_cast<CXXOperatorCallExpr>(S)) {
      O["k"] = "OpCall";
      O["op"] = getOperatorSpelling(X->getOperator());
      if (auto *FD = dyn_cast_or_null<FunctionDecl>(X->getCalleeDecl())) {
        calleeInfo(FD, O);
        if (isa<CXXMethodDecl>(FD)) O["member"] = true;
      }
      StmtIds[X->getCallee()] = id;
      for (const Expr *A : X->arguments()) C.push_back(child(A));
    } else if (auto *X = dyn_cast<CallExpr>(S)) {
      O["k"] = "Call";
      const FunctionDecl *FD = X->getDirectCallee();
      if (FD) {
        calleeInfo(FD, O);
        mapWrappers(X->getCallee(), id);
      } else {
        O["k"] = "ICall"; // indirect: function pointer
        C.push_back(child(X->getCallee()));
      }
      for (const Expr *A : X->arguments()) C.push_back(child(A));
    } else if (auto *X = dyn_cast<CXXConstructExpr>(S)) {
      O["k"] = "Construct";
      const CXXConstructorDecl *CD = X->getConstructor();
      calleeInfo(CD, O);
      O["t"] = typeStr(X->getType());
      if (CD->isCopyOrMoveConstructor()) O["copy"] = true;
      if (isa<CXXTemporaryObjectExpr>(S)) O["temp"] = true;
      for (const Expr *A : X->arguments()) C.push_back(child(A));
    } else if (auto *X = dyn_cast<CompoundAssignOperator>(S)) {
      O["k"] = "Assign";
      O["op"] = X->getOpcodeStr().str();
      C.push_back(child(X->getLHS()));
      C.push_back(child(X->getRHS()));
    } else if (auto *X = dyn_cast<BinaryOperator>(S)) {
      O["k"] = X->isAssignmentOp() ? "Assign" : "BinOp";
      O["op"] = X->getOpcodeStr().str();
      if (!X->isAssignmentOp()) O["t"] = typeStr(X->getType());
      C.push_back(child(X->getLHS()));
      C.push_back(child(X->getRHS()));
    } else if (auto *X = dyn_cast<UnaryOperator>(S)) {
      O["k"] = "UnOp";
      std::string op = UnaryOperator::getOpcodeStr(X->getOpcode()).str();
      if (X->isPostfix()) op = "post" + op;
      O["op"] = op;
      C.push_back(child(X->getSubExpr()));
    } else if (auto *X = dyn_cast<IntegerLiteral>(S)) {
      O["k"] = "Int";
      O["v"] = (int64_t)X->getValue().getLimitedValue();
    } else if (auto *X = dyn_cast<FloatingLiteral>(S)) {
      O["k"] = "Float";
      O["v"] = X->getValueAsApproximateDouble();
    } else if (auto *X = dyn_cast<CXXBoolLiteralExpr>(S)) {
      O["k"] = "Bool";
      O["v"] = X->getValue();
    } else if (auto *X = dyn_cast<clang::StringLiteral>(S)) {
      O["k"] = "Str";
      if (X->isAscii()) O["v"] = X->getString().str();
    } else if (auto *X = dyn_cast<CharacterLiteral>(S)) {
      O["k"] = "Char";
      O["v"] = (int64_t)X->getValue();
    } else if (isa<CXXNullPtrLiteralExpr>(S) || isa<GNUNullExpr>(S)) {
      O["k"] = "Null";
    } else if (isa<CXXThisExpr>(S)) {
      O["k"] = "This";
      if (cast<CXXThisExpr>(S)->isImplicit()) O["impl"] = true;
    } else if (auto *X = dyn_cast<ArraySubscriptExpr>(S)) {
      O["k"] = "Index";
      C.push_back(child(X->getBase()));
      C.push_back(child(X->getIdx()));
    } else if (auto *X = dyn_cast<ConditionalOperator>(S)) {
      O["k"] = "Cond";
      C.push_back(child(X->getCond()));
      C.push_back(child(X->getTrueExpr()));
      C.push_back(child(X->getFalseExpr()));
    } else if (auto *X = dyn_cast<ExplicitCastExpr>(S)) {
      O["k"] = "Cast";
      O["t"] = typeStr(X->getTypeAsWritten());
      C.push_back(child(X->getSubExpr()));
    } else if (auto *X = dyn_cast<CXXNewExpr>(S)) {
      O["k"] = "New";
      O["t"] = typeStr(X->getAllocatedType());
      if (X->isArray()) {
        O["array"] = true;
        if (auto Sz = X->getArraySize()) C.push_back(child(*Sz)); else C.push_back(nullptr);
      }
      if (X->getConstructExpr()) C.push_back(child(X->getConstructExpr()));
      else if (X->getInitializer()) C.push_back(child(X->getInitializer()));
    } else if (auto *X = dyn_cast<CXXDeleteExpr>(S)) {
      O["k"] = "Delete";
      if (X->isArrayForm()) O["array"] = true;
      C.push_back(child(X->getArgument()));
    } else if (auto *X = dyn_cast<CXXThrowExpr>(S)) {
      O["k"] = "Throw";
      C.push_back(child(X->getSubExpr()));
    } else if (auto *X = dyn_cast<CXXDefaultArgExpr>(S)) {
      O["k"] = "DefaultArg";
      (void)X;
    } else if (auto *X = dyn_cast<InitListExpr>(S)) {
      O["k"] = "InitList";
      for (const Expr *I : X->inits()) C.push_back(child(I));
    } else if (auto *X = dyn_cast<UnaryExprOrTypeTraitExpr>(S)) {
      O["k"] = "SizeOf";
      if (X->isArgumentType()) O["t"] = typeStr(X->getArgumentType());
      else O["t"] = typeStr(X->getArgumentExpr()->getType());
    } else if (auto *X = dyn_cast<LambdaExpr>(S)) {
      O["k"] = "Lambda";
      C.push_back(child(X->getBody()));
    } else if (auto *X = dyn_cast<DeclStmt>(S)) {
      O["k"] = "DeclStmt";
      for (const Decl *D : X->decls()) {
        if (auto *VD = dyn_cast<VarDecl>(D)) C.push_back(varDecl(VD));
      }
    } else if (auto *X = dyn_cast<CompoundStmt>(S)) {
      O["k"] = "Block";
      for (const Stmt *B : X->body()) C.push_back(child(B));
    } else if (auto *X = dyn_cast<IfStmt>(S)) {
      O["k"] = "If";
      if (X->getInit()) O["hasinit"] = true;
      if (X->getInit()) C.push_back(child(X->getInit()));
      if (X->getConditionVariable()) { O["condvar"] = true; C.push_back(child(X->getConditionVariableDeclStmt())); }
      C.push_back(child(X->getCond()));
      C.push_back(child(X->getThen()));
      C.push_back(child(X->getElse()));
      // slots: [init?] [condvar?] cond then else
    } else if (auto *X = dyn_cast<ForStmt>(S)) {
      O["k"] = "For";
      C.push_back(child(X->getInit()));
      C.push_back(child(X->getCond()));
      C.push_back(child(X->getInc()));
      C.push_back(child(X->getBody()));
    } else if (auto *X = dyn_cast<WhileStmt>(S)) {
      O["k"] = "While";
      C.push_back(child(X->getCond()));
      C.push_back(child(X->getBody()));
    } else if (auto *X = dyn_cast<DoStmt>(S)) {
      O["k"] = "Do";
      C.push_back(child(X->getBody()));
      C.push_back(child(X->getCond()));
    } else if (auto *X = dyn_cast<CXXForRangeStmt>(S)) {
      O["k"] = "ForRange";
      C.push_back(varDecl(X->getLoopVariable()));
      C.push_back(child(X->getRangeInit()));
      C.push_back(child(X->getBody()));
      // hidden statements get the loop's id so CFG elements resolve somewhere
      if (X->getRangeStmt()) StmtIds[X->getRangeStmt()] = id;
      if (X->getBeginStmt()) StmtIds[X->getBeginStmt()] = id;
      if (X->getEndStmt()) StmtIds[X->getEndStmt()] = id;
      if (X->getLoopVarStmt()) StmtIds[X->getLoopVarStmt()] = id;
    } else if (auto *X = dyn_cast<ReturnStmt>(S)) {
      O["k"] = "Return";
      C.push_back(child(X->getRetValue()));
    } else if (auto *X = dyn_cast<SwitchStmt>(S)) {
      O["k"] = "Switch";
      C.push_back(child(X->getCond()));
      C.push_back(child(X->getBody()));
    } else if (auto *X = dyn_cast<CaseStmt>(S)) {
      O["k"] = "Case";
      C.push_back(child(X->getLHS()));
      C.push_back(child(X->getSubStmt()));
    } else if (auto *X = dyn_cast<DefaultStmt>(S)) {
      O["k"] = "Default";
      C.push_back(child(X->getSubStmt()));
    } else if (isa<BreakStmt>(S)) {
      O["k"] = "Break";
    } else if (isa<ContinueStmt>(S)) {
      O["k"] = "Continue";
    } else if (auto *X = dyn_cast<GotoStmt>(S)) {
      O["k"] = "Goto";
      O["n"] = X->getLabel()->getNameAsString();
    } else if (auto *X = dyn_cast<LabelStmt>(S)) {
      O["k"] = "Label";
      O["n"] = X->getDecl()->getNameAsString();
      C.push_back(child(X->getSubStmt()));
    } else if (isa<NullStmt>(S)) {
      O["k"] = "Null";
    } else if (auto *X = dyn_cast<CXXTryStmt>(S)) {
      O["k"] = "Try";
      C.push_back(child(X->getTryBlock()));
      for (unsigned i = 0; i < X->getNumHandlers(); i++) C.push_back(child(X->getHandler(i)));
    } else if (auto *X = dyn_cast<CXXCatchStmt>(S)) {
      O["k"] = "Catch";
      if (X->getExceptionDecl()) O["t"] = typeStr(X->getCaughtType());
      C.push_back(child(X->getHandlerBlock()));
    } else if (auto *X = dyn_cast<OMPExecutableDirective>(S)) {
      O["k"] = "OMP";
      O["dir"] = S->getStmtClassName();
      json::Array Cl;
      for (const OMPClause *Cz : X->clauses()) {
        if (!Cz) continue;
        json::Object CO;
        CO["kind"] = llvm::omp::getOpenMPClauseName(Cz->getClauseKind()).str();
        json::Array Vars;
        for (const Stmt *Ch : const_cast<OMPClause *>(Cz)->children()) {
          if (auto *E = dyn_cast_or_null<Expr>(Ch))
            if (auto *DR = dyn_cast<DeclRefExpr>(strip(E))) {
              json::Object VO;
              VO["n"] = DR->getDecl()->getNameAsString();
              VO["d"] = declId(DR->getDecl());
              Vars.push_back(std::move(VO));
            }
        }
        CO["vars"] = std::move(Vars);
        Cl.push_back(std::move(CO));
      }
      O["clauses"] = std::move(Cl);
      if (X->hasAssociatedStmt()) {
        const Stmt *A = X->getAssociatedStmt();
        while (auto *CS = dyn_cast_or_null<CapturedStmt>(A)) A = CS->getCapturedStmt();
        C.push_back(child(A));
      }
    } else {
      // generic: keep children
      for (const Stmt *Ch : S->children()) C.push_back(child(Ch));
      if (auto *E = dyn_cast<Expr>(S)) O["t"] = typeStr(E->getType());
    }
    if (!C.empty()) O["c"] = std::move(C);
    return json::Value(std::move(O));
  }

  json::Value varDecl(const VarDecl *VD) {
    if (!VD) return nullptr;
    json::Object O;
    int id = NextStmt++;
    O["i"] = id;
    O["k"] = "VarDecl";
    O["n"] = VD->getNameAsString();
    O["d"] = declId(VD);
    O["t"] = typeStr(VD->getType());
    O["l"] = lineOf(VD->getLocation());
    if (VD->isStaticLocal()) O["static"] = true;
    VarIds[VD] = id;
    json::Array C;
    if (VD->hasInit()) C.push_back(child(VD->getInit()));
    if (!C.empty()) O["c"] = std::move(C);
    return json::Value(std::move(O));
  }
  std::map<const VarDecl *, int> VarIds;

  // ------------------------------------------------------------------ CFG

  bool interesting(const Stmt *S) {
    if (auto *E = dyn_cast<Expr>(S)) S = strip(E);
    if (isa<DeclRefExpr>(S) || isa<IntegerLiteral>(S) || isa<FloatingLiteral>(S) ||
        isa<clang::StringLiteral>(S) || isa<CXXBoolLiteralExpr>(S) || isa<CXXThisExpr>(S) ||
        isa<CharacterLiteral>(S) || isa<CXXDefaultArgExpr>(S) || isa<CXXNullPtrLiteralExpr>(S))
      return false;
    return true;
  }

  int idOf(const Stmt *S) {
    if (!S) return -1;
    auto it = StmtIds.find(S);
    if (it != StmtIds.end()) return it->second;
    if (auto *DS = dyn_cast<DeclStmt>(S)) {
      if (DS->isSingleDecl())
        if (auto *VD = dyn_cast<VarDecl>(DS->getSingleDecl())) {
          auto jt = VarIds.find(VD);
          if (jt != VarIds.end()) return jt->second;
        }
    }
    return -1;
  }

  json::Value cfg(const FunctionDecl *FD) {
    CFG::BuildOptions BO;
    BO.setAllAlwaysAdd();
    BO.AddImplicitDtors = false;
    BO.AddEHEdges = false;
    BO.AddInitializers = true;
    BO.PruneTriviallyFalseEdges = false;
    std::unique_ptr<CFG> G = CFG::buildCFG(FD, FD->getBody(), &Ctx, BO);
    if (!G) return nullptr;
    json::Object O;
    O["entry"] = (int)G->getEntry().getBlockID();
    O["exit"] = (int)G->getExit().getBlockID();
    json::Array Blocks;
    for (const CFGBlock *B : *G) {
      json::Object BOj;
      BOj["b"] = (int)B->getBlockID();
      json::Array E;
      int last = -2;
      for (const CFGElement &El : *B) {
        if (auto CS = El.getAs<CFGStmt>()) {
          const Stmt *S = CS->getStmt();
          if (!interesting(S)) continue;
          int id = idOf(S);
          if (id < 0 || id == last) continue;
          E.push_back(id);
          last = id;
        } else if (auto CI = El.getAs<CFGInitializer>()) {
          const CXXCtorInitializer *I = CI->getInitializer();
          int id = idOf(I->getInit());
          if (id >= 0 && id != last) { E.push_back(id); last = id; }
        }
      }
      BOj["e"] = std::move(E);
      if (const Stmt *T = B->getTerminatorStmt()) {
        BOj["t"] = T->getStmtClassName();
        BOj["ts"] = idOf(T);
        if (const Stmt *Cnd = B->getTerminatorCondition()) BOj["tc"] = idOf(Cnd);
      }
      if (const Stmt *L = B->getLabel()) {
        BOj["lbl"] = idOf(L);
      }
      if (B->hasNoReturnElement()) BOj["noret"] = true;
      json::Array Su;
      for (auto I = B->succ_begin(); I != B->succ_end(); ++I) {
        const CFGBlock *SB = I->getReachableBlock();
        if (!SB) SB = I->getPossiblyUnreachableBlock();
        if (SB) Su.push_back((int)SB->getBlockID()); else Su.push_back(nullptr);
      }
      BOj["s"] = std::move(Su);
      Blocks.push_back(std::move(BOj));
    }
    O["blocks"] = std::move(Blocks);
    return json::Value(std::move(O));
  }

  // ------------------------------------------------------------------ decls

  static const char *accessStr(AccessSpecifier A) {
    switch (A) {
    case AS_public: return "public";
    case AS_protected: return "protected";
    case AS_private: return "private";
    default: return "none";
    }
  }

  void function(const FunctionDecl *FD) {
    if (!FD->doesThisDeclarationHaveABody()) return;
    if (FD->isDependentContext()) return;
    if (!wanted(FD->getLocation())) return;
    if (FD->isDefaulted() && !FD->isUserProvided() && FD->isImplicit()) return;

    StmtIds.clear();
    VarIds.clear();
    NextStmt = 0;

    json::Object O;
    O["name"] = qname(FD);
    O["short"] = FD->getNameAsString();
    O["usr"] = usr(FD);
    O["file"] = fileOf(FD->getLocation());
    O["line"] = lineOf(FD->getLocation());
    O["endline"] = lineOf(FD->getEndLoc());
    O["ret"] = typeStr(FD->getReturnType());
    if (FD->getStorageClass() == SC_Static) O["fstatic"] = true;
    if (FD->isTemplateInstantiation()) O["inst"] = true;
    if (SM.isInMainFile(SM.getExpansionLoc(FD->getLocation()))) O["main"] = true;
    json::Array Ps;
    for (const ParmVarDecl *P : FD->parameters()) {
      json::Object PO;
      PO["n"] = P->getNameAsString();
      PO["t"] = typeStr(P->getType());
      PO["d"] = declId(P);
      if (P->hasDefaultArg()) PO["def"] = true;
      Ps.push_back(std::move(PO));
    }
    O["params"] = std::move(Ps);
    if (auto *MD = dyn_cast<CXXMethodDecl>(FD)) {
      O["cls"] = clsName(MD->getParent());
      O["access"] = accessStr(MD->getAccess());
      if (MD->isConst()) O["const"] = true;
      if (MD->isVirtual()) O["virtual"] = true;
      if (MD->isStatic()) O["smethod"] = true;
      json::Array Ov;
      for (const CXXMethodDecl *B : MD->overridden_methods()) {
        json::Object BO;
        BO["name"] = qname(B);
        BO["usr"] = usr(B);
        Ov.push_back(std::move(BO));
      }
      if (!Ov.empty()) O["overrides"] = std::move(Ov);
      if (isa<CXXConstructorDecl>(MD)) O["kind"] = "ctor";
      else if (isa<CXXDestructorDecl>(MD)) O["kind"] = "dtor";
      else O["kind"] = "method";
    } else {
      O["kind"] = "function";
    }
    if (auto *CD = dyn_cast<CXXConstructorDecl>(FD)) {
      json::Array Inits;
      for (const CXXCtorInitializer *I : CD->inits()) {
        if (!I->isWritten() && !I->isAnyMemberInitializer() && !I->isBaseInitializer()) continue;
        json::Object IO;
        if (I->isAnyMemberInitializer()) {
          IO["field"] = I->getAnyMember()->getNameAsString();
          IO["d"] = declId(I->getAnyMember());
        } else if (I->isBaseInitializer()) {
          IO["base"] = typeStr(QualType(I->getBaseClass(), 0));
        } else if (I->isDelegatingInitializer()) {
          IO["delegating"] = true;
        }
        IO["written"] = I->isWritten();
        IO["init"] = child(I->getInit());
        Inits.push_back(std::move(IO));
      }
      O["inits"] = std::move(Inits);
    }
    O["body"] = child(FD->getBody());
    if (!OptSummary) O["cfg"] = cfg(FD);
    O["nstmt"] = NextStmt;
    Functions.push_back(std::move(O));
  }

  void record(const CXXRecordDecl *RD) {
    if (!RD->isThisDeclarationADefinition()) return;
    if (RD->isDependentContext()) return;
    if (!inRepo(RD->getLocation())) return;
    if (RD->isLambda()) return;
    std::string N = clsName(RD);
    if (!SeenClass.insert(N).second) return;
    json::Object O;
    O["name"] = N;
    O["file"] = fileOf(RD->getLocation());
    O["line"] = lineOf(RD->getLocation());
    if (RD->isAbstract()) O["abstract"] = true;
    json::Array Bs;
    for (const CXXBaseSpecifier &B : RD->bases()) {
      if (auto *BD = B.getType()->getAsCXXRecordDecl()) Bs.push_back(clsName(BD));
      else Bs.push_back(typeStr(B.getType()));
    }
    O["bases"] = std::move(Bs);
    json::Array Fs;
    for (const FieldDecl *F : RD->fields()) {
      json::Object FO;
      FO["n"] = F->getNameAsString();
      FO["t"] = typeStr(F->getType());
      FO["access"] = accessStr(F->getAccess());
      FO["d"] = declId(F);
      if (F->isMutable()) FO["mutable"] = true;
      Fs.push_back(std::move(FO));
    }
    O["fields"] = std::move(Fs);
    json::Array Ms;
    for (const Decl *D : RD->decls()) {
      const CXXMethodDecl *M = dyn_cast<CXXMethodDecl>(D);
      if (!M) {
        if (auto *FT = dyn_cast<FunctionTemplateDecl>(D)) (void)FT;
        continue;
      }
      if (M->isImplicit()) continue;
      json::Object MO;
      MO["n"] = M->getNameAsString();
      MO["q"] = qname(M);
      MO["usr"] = usr(M);
      MO["access"] = accessStr(M->getAccess());
      MO["ret"] = typeStr(M->getReturnType());
      if (M->isVirtual()) MO["virtual"] = true;
      if (M->isPure()) MO["pure"] = true;
      if (M->isConst()) MO["const"] = true;
      if (M->isStatic()) MO["static"] = true;
      if (M->isDeleted()) MO["deleted"] = true;
      if (isa<CXXConstructorDecl>(M)) MO["kind"] = "ctor";
      else if (isa<CXXDestructorDecl>(M)) MO["kind"] = "dtor";
      else MO["kind"] = "method";
      json::Array Ps;
      for (const ParmVarDecl *P : M->parameters()) {
        json::Object PO;
        PO["n"] = P->getNameAsString();
        PO["t"] = typeStr(P->getType());
        Ps.push_back(std::move(PO));
      }
      MO["params"] = std::move(Ps);
      json::Array Ov;
      for (const CXXMethodDecl *B : M->overridden_methods()) Ov.push_back(usr(B));
      if (!Ov.empty()) MO["overrides"] = std::move(Ov);
      MO["line"] = lineOf(M->getLocation());
      Ms.push_back(std::move(MO));
    }
    O["methods"] = std::move(Ms);
    Classes.push_back(std::move(O));
  }

};

class Visitor : public RecursiveASTVisitor<Visitor> {
public:
  explicit Visitor(Extractor &E) : Ex(E) {}
  Extractor &Ex;
  bool shouldVisitTemplateInstantiations() const { return true; }
  bool shouldVisitImplicitCode() const { return false; }

  bool VisitFunctionDecl(FunctionDecl *FD) {
    Ex.function(FD);
    return true;
  }
  bool VisitCXXRecordDecl(CXXRecordDecl *RD) {
    Ex.record(RD);
    return true;
  }
  bool VisitVarDecl(VarDecl *VD) {
    if (!VD->isFileVarDecl()) return true;
    if (VD->isThisDeclarationADefinition() == VarDecl::DeclarationOnly) return true;
    if (!Ex.wanted(VD->getLocation())) return true;
    if (VD->getDeclContext()->isDependentContext()) return true;
    json::Object O;
    O["n"] = VD->getNameAsString();
    O["q"] = Ex.qname(VD);
    O["t"] = Ex.typeStr(VD->getType());
    O["d"] = Ex.declId(VD);
    O["file"] = Ex.fileOf(VD->getLocation());
    O["line"] = Ex.lineOf(VD->getLocation());
    if (VD->getStorageClass() == SC_Static) O["fstatic"] = true;
    if (VD->getType().isConstQualified()) O["const"] = true;
    if (VD->isStaticDataMember()) O["smember"] = true;
    if (VD->hasInit()) {
      Ex.StmtIds.clear(); Ex.VarIds.clear(); Ex.NextStmt = 0;
      O["init"] = Ex.child(VD->getInit());
    }
    Ex.Globals.push_back(std::move(O));
    return true;
  }
  bool VisitEnumDecl(EnumDecl *ED) {
    if (!ED->isThisDeclarationADefinition()) return true;
    if (!Ex.inRepo(ED->getLocation())) return true;
    json::Object O;
    O["name"] = Ex.qname(ED);
    O["file"] = Ex.fileOf(ED->getLocation());
    json::Array Cs;
    for (const EnumConstantDecl *C : ED->enumerators()) {
      json::Object CO;
      CO["n"] = C->getNameAsString();
      CO["v"] = (int64_t)C->getInitVal().getExtValue();
      Cs.push_back(std::move(CO));
    }
    O["consts"] = std::move(Cs);
    Ex.Enums.push_back(std::move(O));
    return true;
  }
};

class Consumer : public ASTConsumer {
public:
  explicit Consumer(std::string In) : InFile(std::move(In)) {}
  std::string InFile;
  void HandleTranslationUnit(ASTContext &Ctx) override {
    if (Ctx.getDiagnostics().hasErrorOccurred()) {
      llvm::errs() << "gsa-extract: parse errors in " << InFile << "\n";
      HadError = true;
    }
    Extractor Ex(Ctx);
    Visitor V(Ex);
    V.TraverseDecl(Ctx.getTranslationUnitDecl());
    json::Object Root;
    Root["unit"] = InFile;
    Root["errors"] = HadError;
    Root["functions"] = std::move(Ex.Functions);
    Root["classes"] = std::move(Ex.Classes);
    Root["globals"] = std::move(Ex.Globals);
    Root["enums"] = std::move(Ex.Enums);
    std::string Name = InFile;
    for (char &c : Name) if (c == '/') c = '@';
    std::string Path = OptOut + "/" + Name + ".json";
    std::error_code EC;
    llvm::raw_fd_ostream OS(Path, EC);
    if (EC) {
      llvm::errs() << "gsa-extract: cannot write " << Path << ": " << EC.message() << "\n";
      HadError = true;
      return;
    }
    OS << json::Value(std::move(Root));
    OS << "\n";
  }
  static bool HadError;
};
bool Consumer::HadError = false;

class Action : public ASTFrontendAction {
public:
  std::unique_ptr<ASTConsumer> CreateASTConsumer(CompilerInstance &, llvm::StringRef In) override {
    return std::make_unique<Consumer>(In.str());
  }
};

} // namespace

int main(int argc, const char **argv) {
  auto Exp = CommonOptionsParser::create(argc, argv, Cat);
  if (!Exp) {
    llvm::errs() << llvm::toString(Exp.takeError());
    return 2;
  }
  CommonOptionsParser &OP = Exp.get();
  ClangTool Tool(OP.getCompilations(), OP.getSourcePathList());
  int rc = Tool.run(newFrontendActionFactory<Action>().get());
  if (rc != 0 || Consumer::HadError) return 2;
  return 0;
}
