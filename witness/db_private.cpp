// Compile-fail witness (R7.0): the internal maps of Db are private.  This unit MUST fail to compile, with exactly one
// "is a private member" error per map.  It contains no copy of repository code.
#include "Db/Db.hpp"

void gsa_witness_write_db_maps(Db& db)
{
  db._ncol = 1;
  db._nech = 1;
  db._array.clear();
  db._uidcol.clear();
  db._colNames.clear();
  db._p.clear();
}
