// Positive control of the OpenMP rule (C11c): one racy region (must be flagged) and one correct reduction (must not).
// Contains no repository code.
double gsa_control_racy(const double* x, int n)
{
  double total = 0.;
#pragma omp parallel for
  for (int i = 0; i < n; i++)
    total += x[i];              // unsynchronised shared write
  return total;
}

double gsa_control_reduction(const double* x, double* y, int n)
{
  double total = 0.;
#pragma omp parallel for reduction(+:total)
  for (int i = 0; i < n; i++)
  {
    double t = 2. * x[i];
    y[i] = t;                   // indexed by the loop variable
    total += t;                 // reduction variable
  }
  return total;
}
