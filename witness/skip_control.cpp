// Positive control of the "an undefined element skips itself only" rule (C05d / C12u / S5): the first loop must be reported,
// the second one must not.  Analysed on every run: a rule whose instance count on the repository is zero still proves it matches.
bool FFFF(double value);
double skip_control_break(const double* v, int n)
{
  double s = 0.;
  for (int i = 0; i < n; i++)
  {
    if (FFFF(v[i])) break;
    s += v[i];
  }
  return s;
}
double skip_control_continue(const double* v, int n)
{
  double s = 0.;
  for (int i = 0; i < n; i++)
  {
    if (FFFF(v[i])) continue;
    s += v[i];
  }
  return s;
}
