// Witness translation unit: contains NO copy of repository code.  It includes the repository
// headers and explicitly instantiates the header-only templates so that every member body
// exists, type-resolved, in one AST for gsa-extract (--headers).
#include "Basic/VectorT.hpp"
#include "Basic/VectorNumT.hpp"
#include "Basic/ASerializable.hpp"

template class VectorT<double>;
template class VectorT<int>;
template class VectorT<String>;
template class VectorNumT<double>;
template class VectorNumT<int>;

template bool ASerializable::_recordRead<int>(std::istream&, const String&, int&);
template bool ASerializable::_recordRead<double>(std::istream&, const String&, double&);
template bool ASerializable::_recordRead<String>(std::istream&, const String&, String&);
template bool ASerializable::_recordReadVec<int>(std::istream&, const String&, VectorT<int>&, int);
template bool ASerializable::_recordReadVec<double>(std::istream&, const String&, VectorT<double>&, int);
template bool ASerializable::_recordReadVec<String>(std::istream&, const String&, VectorT<String>&, int);
template bool ASerializable::_recordReadVecInPlace<double>(std::istream&, const String&, VectorDouble::iterator&, int);
template bool ASerializable::_recordWrite<int>(std::ostream&, const String&, const int&);
template bool ASerializable::_recordWrite<double>(std::ostream&, const String&, const double&);
template bool ASerializable::_recordWrite<String>(std::ostream&, const String&, const String&);
template bool ASerializable::_recordWriteVec<int>(std::ostream&, const String&, const std::vector<int>&);
template bool ASerializable::_recordWriteVec<double>(std::ostream&, const String&, const std::vector<double>&);
template bool ASerializable::_recordWriteVec<String>(std::ostream&, const String&, const std::vector<String>&);
